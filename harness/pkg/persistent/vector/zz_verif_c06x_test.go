//go:build verif

package vector_test

// C06, part (4): the same array oracle through vals.Index / vals.Assoc on
// lists (external test package, because vals imports vector).
//
// Oracle from website/ref/language.md, "List": an integer index k counts from
// the front (k >= 0) or from the back (k < 0); a slice "a..b" is the sublist
// from element a up to but not including element b, with the same counting for
// negative a and b. Requests outside the list are rejected (error, nil value).

import (
	"fmt"
	"strconv"

	"src.elv.sh/pkg/eval/vals"
	"src.elv.sh/pkg/persistent/vector"
	"src.elv.sh/pkg/zzverif/vk"
)

func init() { vector.C06ValsPart = c06xRun }

func c06xShow(m []int) string { return fmt.Sprint(m) }

// c06xSame compares a list value with an array through vals.Len / vals.Index / vals.Iterate.
func c06xSame(v any, m []int) string {
	l, ok := v.(vals.List)
	if !ok {
		return fmt.Sprintf("is a %T, not a list", v)
	}
	if vals.Len(l) != len(m) {
		return fmt.Sprintf("has length %d, want %d", vals.Len(l), len(m))
	}
	for i := range m {
		e, err := vals.Index(l, i)
		if err != nil || e != any(m[i]) {
			return fmt.Sprintf("element %d is (%v, %v), want %d", i, e, err, m[i])
		}
	}
	k := 0
	bad := ""
	vals.Iterate(l, func(e any) bool {
		if k >= len(m) || e != any(m[k]) {
			bad = fmt.Sprintf("iteration element %d is %v", k, e)
			return false
		}
		k++
		return true
	})
	if bad == "" && k != len(m) {
		bad = fmt.Sprintf("iteration yields %d elements, want %d", k, len(m))
	}
	return bad
}

// c06xResolve: documented meaning of an integer position on length n.
func c06xResolve(k, n int) int {
	if k < 0 {
		return k + n
	}
	return k
}

func c06xPositions(n int) []int {
	var ps []int
	if n <= 9 {
		for k := -n - 2; k <= n+2; k++ {
			ps = append(ps, k)
		}
		return ps
	}
	seen := map[int]bool{}
	for _, k := range []int{0, 1, 31, 32, 33, 63, 64, n / 2, n - 1, n, n + 1} {
		for _, q := range []int{k, -k, -k - 1} {
			if q >= -n-2 && q <= n+2 && !seen[q] {
				seen[q] = true
				ps = append(ps, q)
			}
		}
	}
	return ps
}

// c06xList checks every element index, every slice and every assoc on one
// list; slices are checked recursively down to depth levels.
func c06xList(c *vk.Ctx, l *vk.Local, where string, v any, m []int, depth int) {
	n := len(m)
	if msg := c06xSame(v, m); msg != "" {
		c.Violate("vals:list-differs-from-array", fmt.Sprintf("%s %s, want %s", where, msg, c06xShow(m)), where)
		return
	}
	ps := c06xPositions(n)
	for _, k := range ps {
		r := c06xResolve(k, n)
		valid := r >= 0 && r < n
		for form := 0; form < 2; form++ {
			var idx any = k
			if form == 1 {
				idx = strconv.Itoa(k)
			}
			var e any
			var err error
			if p := vk.Try(func() { e, err = vals.Index(v, idx) }); p != "" {
				c.Violate("vals:panic:"+vk.PanicSite(p), fmt.Sprintf("%s: vals.Index(list, %#v) panicked: %s", where, idx, p), where)
				continue
			}
			switch {
			case valid && (err != nil || e != any(m[r])):
				c.Violate("vals:index-wrong-element", fmt.Sprintf("%s = %s: index %#v gives (%v, %v), want %d", where, c06xShow(m), idx, e, err, m[r]), where)
			case !valid && (err == nil || e != nil):
				c.Violate("vals:index-out-of-range-accepted", fmt.Sprintf("%s = %s: index %#v gives (%v, %v), want an error and no value", where, c06xShow(m), idx, e, err), where)
			}
			l.Case(fmt.Sprintf("vals index d%d valid=%v neg=%v form%d", depth, valid, k < 0, form))
		}
		// assoc
		var a any
		var err error
		if p := vk.Try(func() { a, err = vals.Assoc(v, k, -9) }); p != "" {
			c.Violate("vals:panic:"+vk.PanicSite(p), fmt.Sprintf("%s: vals.Assoc(list, %d, -9) panicked: %s", where, k, p), where)
		} else if valid {
			wm := append([]int{}, m...)
			wm[r] = -9
			if err != nil {
				c.Violate("vals:assoc-in-range-rejected", fmt.Sprintf("%s = %s: assoc %d: %v", where, c06xShow(m), k, err), where)
			} else if msg := c06xSame(a, wm); msg != "" {
				c.Violate("vals:assoc-wrong-result", fmt.Sprintf("%s = %s: assoc %d -9: result %s", where, c06xShow(m), k, msg), where)
			}
		} else if r != n || k < 0 { // assoc at exactly n: documentation silent, not judged
			if err == nil || a != nil {
				c.Violate("vals:assoc-out-of-range-accepted", fmt.Sprintf("%s = %s: assoc %d gives (%v, %v), want an error and no value", where, c06xShow(m), k, a, err), where)
			}
		}
		if msg := c06xSame(v, m); msg != "" {
			c.Violate("vals:assoc-changed-receiver", fmt.Sprintf("%s: after assoc %d the list %s", where, k, msg), where)
		}
		l.Case(fmt.Sprintf("vals assoc d%d valid=%v", depth, valid))
	}
	for _, a := range ps {
		for _, b := range ps {
			ra, rb := c06xResolve(a, n), c06xResolve(b, n)
			valid := ra >= 0 && rb <= n && ra <= rb && rb >= 0 && ra <= n
			idx := strconv.Itoa(a) + ".." + strconv.Itoa(b)
			var s any
			var err error
			if p := vk.Try(func() { s, err = vals.Index(v, idx) }); p != "" {
				c.Violate("vals:panic:"+vk.PanicSite(p), fmt.Sprintf("%s: vals.Index(list, %q) panicked: %s", where, idx, p), where)
				continue
			}
			l.Case(fmt.Sprintf("vals slice d%d valid=%v nega=%v negb=%v empty=%v", depth, valid, a < 0, b < 0, valid && ra == rb))
			if !valid {
				if err == nil || s != nil {
					c.Violate("vals:slice-out-of-range-accepted", fmt.Sprintf("%s = %s: slice %s gives (%v, %v), want an error and no value", where, c06xShow(m), idx, s, err), where)
				}
				continue
			}
			if err != nil {
				c.Violate("vals:slice-in-range-rejected", fmt.Sprintf("%s = %s: slice %s: %v", where, c06xShow(m), idx, err), where)
				continue
			}
			w2 := where + "[" + idx + "]"
			if depth > 0 && (n <= 6 || ra == rb-2 || ra == 0 || rb == n) {
				c06xList(c, l, w2, s, m[ra:rb], depth-1)
			} else if msg := c06xSame(s, m[ra:rb]); msg != "" {
				c.Violate("vals:list-differs-from-array", fmt.Sprintf("%s %s, want %s", w2, msg, c06xShow(m[ra:rb])), w2)
			}
		}
	}
}

func c06xRun(c *vk.Ctx) {
	lens := []int{0, 1, 2, 3, 4, 5, 6, 7, 8, 9, 33, 65, 70}
	if c.Thorough() {
		lens = append(lens, 1025, 1057, 1060)
	}
	c.Parallel(len(lens), func(l *vk.Local, t int) {
		n := lens[t]
		m := make([]int, n)
		for i := range m {
			m[i] = i
		}
		c06xList(c, l, fmt.Sprintf("(list 0..%d)", n-1), vals.MakeListSlice(m), m, 2)
	})
	c.Set("vals_part_lengths", lens)
}
