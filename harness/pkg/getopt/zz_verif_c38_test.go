//go:build verif

package getopt

import (
	"fmt"
	"runtime/debug"
	"strings"
	"sync"
	"testing"
	"unicode/utf8"

	"src.elv.sh/pkg/zzverif/vk"
)

// C38: getopt.Parse / getopt.Complete against a reference scanner written from
// getopt_long(3) (GNU and BSD man pages), the package documentation of
// pkg/getopt and the "Getopt convention" section of website/ref/flag.md.
//
// What the reference judges (GNU and BSD agree, or the elvish doc is explicit):
//   * an element is an option element iff it starts with '-' and is neither "-"
//     nor "--"; "" and "-" are non-option arguments;
//   * "--name", "--name=value"; required argument attached with '=' or taken
//     from the next element whatever it looks like; optional argument only
//     attached; "--name=value" for an option without argument is an error;
//   * "-abc" chains options without argument; the first option with an argument
//     ends the chain: required = rest of the element if non-empty, else the next
//     element; optional = rest of the element;
//   * StopAfterDoubleDash: "--" ends option scanning and is dropped;
//     StopBeforeFirstNonOption: the first non-option ends option scanning;
//   * LongOnly (doc: "allow long options to start with '-', and disallow short
//     options"): "-name" is the long option "name";
//   * a spec with Long=="" has no long form, a spec with Short==0 no short form;
//   * unknown option or missing required argument <=> Parse returns an error.
// What it does not judge (counted): "--" met while StopAfterDoubleDash is off;
// a long name that is a proper prefix of a declared long name (getopt_long
// abbreviations; elvish documents no abbreviation); what follows an unknown short
// option inside one element in Parse (getopt_long continues the chain, the
// elvish doc of Complete says unknown options take an optional argument:
// both accepted in Parse, the documented one required in Complete); whether an
// option whose required argument is missing / whose argument is extraneous is
// listed among the options; the error text.

var c38Specs = []*OptionSpec{
	{Short: 'a', Arity: NoArgument},
	{Short: 'b', Arity: RequiredArgument},
	{Short: 'c', Arity: OptionalArgument},
	{Long: "long", Arity: NoArgument},
	{Long: "req", Arity: RequiredArgument},
	{Long: "opt", Arity: OptionalArgument},
	{Short: 'x', Long: "xx", Arity: RequiredArgument},
	{Short: 'é', Arity: OptionalArgument},
}

var c38SpecNames = []string{"-a", "-b:", "-c::", "--long", "--req:", "--opt::", "-x/--xx:", "-é::"}

var c38Args = []string{
	"-a", "-ab", "-bv", "-b", "-c", "-cv", "--long", "--req", "--req=v", "--opt", "--opt=v", "--unk",
	"-", "--", "v", "", "-\xff", "--=v",
	"-x", "--xx", "--xx=v", "-za", "--long=v", "--req=", "-long", "-req", "-req=v", "-év", "-a\xff", "-=v", "--unk=v", "-\x00",
}

var c38Configs = []Config{0, GNU, BSD, LongOnly, GNU | LongOnly, StopBeforeFirstNonOption, BSD | LongOnly, StopBeforeFirstNonOption | LongOnly}

// c38Opt is one option occurrence expected by the reference.
type c38Opt struct {
	spec      *OptionSpec // nil when unknown
	long      bool
	name      string // unknown options: the long name / the short character
	nameKnown bool   // false when the short "character" is an invalid UTF-8 byte
	arg       string
	argAny    bool // the argument is not judged
	optional  bool // whether the implementation lists this occurrence at all is not judged
}

const (
	c38ErrUnknown = 1 << iota
	c38ErrMissing
	c38ErrExtraneous
)

type c38Result struct {
	opts      []c38Opt
	nonOpts   []string
	pending   *c38Opt // option still waiting for its required argument
	stopped   bool
	errs      int
	notJudged string // non-empty: the documentation / conventions do not determine the outcome
	ambiguous bool   // the unknown-short-option policy influenced the result
	roles     []byte // one letter per element, for the class key
}

// c38Scanner is the reference scanner. unkArg selects the reading of an unknown
// short option followed by more characters: true = the rest is its (optional)
// argument (elvish doc of Complete), false = the chain continues (getopt_long).
type c38Scanner struct {
	specs  []*OptionSpec
	cfg    Config
	unkArg bool
	res    c38Result
	// backing stores, so that one scan is one allocation
	optBuf  [8]c38Opt
	argBuf  [4]string
	roleBuf [4]byte
	pendBuf c38Opt
}

var c38Pool = sync.Pool{New: func() any { return new(c38Scanner) }}

// c38NewScanner takes a scanner from the pool; its result is valid until c38Free.
func c38NewScanner(specs []*OptionSpec, cfg Config, unkArg bool) *c38Scanner {
	s := c38Pool.Get().(*c38Scanner)
	s.specs, s.cfg, s.unkArg = specs, cfg, unkArg
	s.res = c38Result{opts: s.optBuf[:0], nonOpts: s.argBuf[:0], roles: s.roleBuf[:0]}
	return s
}

func c38Free(ss ...*c38Scanner) {
	for _, s := range ss {
		c38Pool.Put(s)
	}
}

func (s *c38Scanner) setPending(o c38Opt) {
	s.pendBuf = o
	s.res.pending = &s.pendBuf
}

func (s *c38Scanner) lookupLong(name string) (*OptionSpec, bool) {
	abbrev := false
	for _, sp := range s.specs {
		if sp.Long == "" {
			continue // no long form
		}
		if sp.Long == name {
			return sp, false
		}
		if len(name) < len(sp.Long) && strings.HasPrefix(sp.Long, name) {
			abbrev = true
		}
	}
	return nil, abbrev
}

func (s *c38Scanner) lookupShort(r rune) *OptionSpec {
	for _, sp := range s.specs {
		if sp.Short != 0 && sp.Short == r {
			return sp
		}
	}
	return nil
}

// long handles the text after the dashes of a long option element; returns the role letter.
func (s *c38Scanner) long(body string) byte {
	name, val, hasVal := strings.Cut(body, "=")
	sp, abbrev := s.lookupLong(name)
	if sp == nil {
		if abbrev {
			s.res.notJudged = "long-name-is-abbreviation"
			return '?'
		}
		s.res.errs |= c38ErrUnknown
		s.res.opts = append(s.res.opts, c38Opt{long: true, name: name, nameKnown: true, arg: val, argAny: !s.unkArg})
		if hasVal {
			return 'W'
		}
		return 'w'
	}
	switch sp.Arity {
	case NoArgument:
		if hasVal {
			s.res.errs |= c38ErrExtraneous
			s.res.opts = append(s.res.opts, c38Opt{spec: sp, long: true, argAny: true, optional: true})
			return 'E'
		}
		s.res.opts = append(s.res.opts, c38Opt{spec: sp, long: true})
		return 'L'
	case RequiredArgument:
		if hasVal {
			s.res.opts = append(s.res.opts, c38Opt{spec: sp, long: true, arg: val})
			return 'R'
		}
		s.setPending(c38Opt{spec: sp, long: true})
		return 'Q'
	default:
		s.res.opts = append(s.res.opts, c38Opt{spec: sp, long: true, arg: val})
		if hasVal {
			return 'O'
		}
		return 'o'
	}
}

// short handles the text after the dash of a short option cluster.
func (s *c38Scanner) short(body string) byte {
	role := byte('s')
	n := 0
	for p := 0; p < len(body); n++ {
		r, w := utf8.DecodeRuneInString(body[p:])
		valid := !(r == utf8.RuneError && w <= 1)
		if w < 1 {
			w = 1
		}
		rest := body[p+w:]
		var sp *OptionSpec
		if valid {
			sp = s.lookupShort(r)
		}
		if sp == nil {
			s.res.errs |= c38ErrUnknown
			role = 'u'
			if !valid {
				role = 'i'
			}
			if rest != "" {
				s.res.ambiguous = true
				role -= 32
			}
			if s.unkArg {
				s.res.opts = append(s.res.opts, c38Opt{name: string(r), nameKnown: valid, arg: rest})
				return role
			}
			s.res.opts = append(s.res.opts, c38Opt{name: string(r), nameKnown: valid, argAny: true})
			p += w
			continue
		}
		switch sp.Arity {
		case NoArgument:
			s.res.opts = append(s.res.opts, c38Opt{spec: sp})
			p += w
			if n > 0 {
				role = 'c'
			}
		case RequiredArgument:
			if rest != "" {
				s.res.opts = append(s.res.opts, c38Opt{spec: sp, arg: rest})
				return 'r' - 32*c38b(n > 0)
			}
			s.setPending(c38Opt{spec: sp})
			return 'q' - 32*c38b(n > 0)
		default:
			s.res.opts = append(s.res.opts, c38Opt{spec: sp, arg: rest})
			if rest != "" {
				return 'p' - 32*c38b(n > 0)
			}
			return 'n' - 32*c38b(n > 0)
		}
	}
	return role
}

func c38b(b bool) byte {
	if b {
		return 1
	}
	return 0
}

// scan runs the reference over a complete argument list.
func (s *c38Scanner) scan(args []string) *c38Result {
	for _, a := range args {
		var role byte
		switch {
		case s.res.pending != nil:
			// a required argument is taken from the next element whatever it looks like
			s.res.pending.arg = a
			s.res.opts = append(s.res.opts, *s.res.pending)
			s.res.pending = nil
			role = 'A'
		case s.res.stopped:
			s.res.nonOpts = append(s.res.nonOpts, a)
			role = 'P'
		case a == "--":
			if s.cfg&StopAfterDoubleDash == 0 {
				s.res.notJudged = "double-dash-while-StopAfterDoubleDash-off"
				return &s.res
			}
			s.res.stopped = true
			role = 'D'
		case a == "" || a == "-" || a[0] != '-':
			s.res.nonOpts = append(s.res.nonOpts, a)
			if s.cfg&StopBeforeFirstNonOption != 0 {
				s.res.stopped = true
			}
			role = 'N'
		case strings.HasPrefix(a, "--"):
			role = s.long(a[2:])
		case s.cfg&LongOnly != 0:
			role = s.long(a[1:])
		default:
			role = s.short(a[1:])
		}
		if s.res.notJudged != "" {
			return &s.res
		}
		s.res.roles = append(s.res.roles, role)
	}
	if s.res.pending != nil {
		s.res.errs |= c38ErrMissing
	}
	return &s.res
}

func c38Ref(args []string, specs []*OptionSpec, cfg Config, unkArg bool) (*c38Result, *c38Scanner) {
	s := c38NewScanner(specs, cfg, unkArg)
	return s.scan(args), s
}

// c38Match reports whether an implementation option is the expected occurrence.
func c38Match(o *Option, e *c38Opt) bool {
	if o == nil || o.Spec == nil {
		return false
	}
	if o.Long != e.long || o.Unknown != (e.spec == nil) {
		return false
	}
	if e.spec != nil {
		if o.Spec != e.spec {
			return false
		}
	} else if e.nameKnown {
		if e.long && o.Spec.Long != e.name {
			return false
		}
		if !e.long && string(o.Spec.Short) != e.name {
			return false
		}
	}
	return e.argAny || o.Argument == e.arg
}

// c38MatchOpts aligns the implementation's option list with the expected list
// (entries marked optional may be absent). Returns "" or a description.
func c38MatchOpts(got []*Option, want []c38Opt) string {
	j := 0
	for i, o := range got {
		for j < len(want) && !c38Match(o, &want[j]) && want[j].optional {
			j++
		}
		if j >= len(want) || !c38Match(o, &want[j]) {
			return fmt.Sprintf("option #%d %s has no counterpart; expected options %s", i, c38ShowOpt(o), c38ShowWant(want))
		}
		j++
	}
	for ; j < len(want); j++ {
		if !want[j].optional {
			return fmt.Sprintf("expected option #%d is missing; expected options %s", j, c38ShowWant(want))
		}
	}
	return ""
}

func c38SpecName(sp *OptionSpec) string {
	for i, s := range c38Specs {
		if s == sp {
			return c38SpecNames[i]
		}
	}
	if sp == nil {
		return "<nil spec>"
	}
	return fmt.Sprintf("{Short:%q Long:%q %v}", sp.Short, sp.Long, sp.Arity)
}

func c38ShowOpt(o *Option) string {
	if o == nil {
		return "<nil>"
	}
	return fmt.Sprintf("{spec %s unknown=%v long=%v arg=%q}", c38SpecName(o.Spec), o.Unknown, o.Long, o.Argument)
}

func c38ShowOpts(os []*Option) string {
	var sb strings.Builder
	sb.WriteString("[")
	for i, o := range os {
		if i > 0 {
			sb.WriteString(" ")
		}
		sb.WriteString(c38ShowOpt(o))
	}
	sb.WriteString("]")
	return sb.String()
}

func c38ShowWant(w []c38Opt) string {
	var sb strings.Builder
	sb.WriteString("[")
	for i, e := range w {
		if i > 0 {
			sb.WriteString(" ")
		}
		if e.spec != nil {
			fmt.Fprintf(&sb, "{spec %s long=%v", c38SpecName(e.spec), e.long)
		} else {
			fmt.Fprintf(&sb, "{unknown %q long=%v", e.name, e.long)
		}
		if e.argAny {
			sb.WriteString(" arg=<any>")
		} else {
			fmt.Fprintf(&sb, " arg=%q", e.arg)
		}
		if e.optional {
			sb.WriteString(" (may be absent)")
		}
		sb.WriteString("}")
	}
	sb.WriteString("]")
	return sb.String()
}

func c38SameStrings(a, b []string) bool {
	if len(a) != len(b) {
		return false
	}
	for i := range a {
		if a[i] != b[i] {
			return false
		}
	}
	return true
}

// c38Invariant checks what holds for every returned option whatever the
// undetermined cases are: it refers to a spec, and a declared spec is only
// matched in a form it has. Returns key, message.
func c38Invariant(opts []*Option, extra *Option) (string, string) {
	check := func(o *Option) (string, string) {
		if o == nil || o.Spec == nil {
			return "option-without-spec", "an option without Spec was returned"
		}
		if !o.Unknown && o.Long && o.Spec.Long == "" {
			return "long-form-matches-short-only-spec", fmt.Sprintf("a long option element was matched to the short-only spec %s: %s", c38SpecName(o.Spec), c38ShowOpt(o))
		}
		if !o.Unknown && !o.Long && o.Spec.Short == 0 {
			return "short-form-matches-long-only-spec", fmt.Sprintf("a short option was matched to the long-only spec %s: %s", c38SpecName(o.Spec), c38ShowOpt(o))
		}
		return "", ""
	}
	for _, o := range opts {
		if k, m := check(o); k != "" {
			return k, m
		}
	}
	if extra != nil {
		return check(extra)
	}
	return "", ""
}

func c38ErrKinds(e int) string {
	var p []string
	if e&c38ErrUnknown != 0 {
		p = append(p, "unknown-option")
	}
	if e&c38ErrMissing != 0 {
		p = append(p, "missing-argument")
	}
	if e&c38ErrExtraneous != 0 {
		p = append(p, "extraneous-argument")
	}
	return strings.Join(p, "+")
}

// c38JudgeParse compares one Parse outcome with one reference reading.
func c38JudgeParse(opts []*Option, nonOpts []string, err error, ref *c38Result) (string, string) {
	want := ref.opts
	if ref.pending != nil {
		p := *ref.pending
		p.optional, p.argAny = true, true
		want = append(append([]c38Opt{}, want...), p)
	}
	if m := c38MatchOpts(opts, want); m != "" {
		return "parse-options-mismatch", "options " + c38ShowOpts(opts) + ": " + m
	}
	if !c38SameStrings(nonOpts, ref.nonOpts) {
		return "parse-nonoption-args-mismatch", fmt.Sprintf("non-option arguments %q, expected %q", nonOpts, ref.nonOpts)
	}
	if ref.errs != 0 && err == nil {
		return "parse-no-error:" + c38ErrKinds(ref.errs), fmt.Sprintf("no error returned, expected an error (%s); options %s", c38ErrKinds(ref.errs), c38ShowOpts(opts))
	}
	if ref.errs == 0 && err != nil {
		return "parse-unexpected-error", fmt.Sprintf("error %q returned for a valid argument list", err)
	}
	return "", ""
}

// c38Expect is the expected completion context of the last element, from the
// documentation of ContextType.
type c38Expect struct {
	typ       ContextType
	text      string
	opt       *c38Opt  // expected Context.Option (OptionArgument)
	extra     []c38Opt // options of the last element that may be added to the option list
	notJudged string
}

func c38ExpectContext(pre *c38Result, last string, s *c38Scanner) c38Expect {
	cfg := s.cfg
	longCtx := func(body string) c38Expect {
		if !strings.Contains(body, "=") {
			return c38Expect{typ: LongOption, text: body}
		}
		s.long(body)
		if s.res.notJudged != "" {
			return c38Expect{notJudged: s.res.notJudged}
		}
		var o c38Opt
		if s.res.pending != nil {
			o = *s.res.pending
		} else {
			o = s.res.opts[0]
		}
		o.argAny, o.optional = false, false
		_, o.arg, _ = strings.Cut(body, "=")
		return c38Expect{typ: OptionArgument, opt: &o}
	}
	switch {
	case pre.pending != nil:
		o := *pre.pending
		o.arg = last
		return c38Expect{typ: OptionArgument, opt: &o}
	case pre.stopped:
		return c38Expect{typ: Argument, text: last}
	case last == "":
		return c38Expect{typ: OptionOrArgument}
	case last == "-":
		return c38Expect{typ: AnyOption}
	case strings.HasPrefix(last, "--"):
		return longCtx(last[2:])
	case last[0] == '-' && cfg&LongOnly != 0:
		return longCtx(last[1:])
	case last[0] == '-':
		s.short(last[1:])
		all := s.res.opts
		if s.res.pending != nil {
			all = append(all, *s.res.pending)
		}
		lastOpt := all[len(all)-1]
		arity := OptionalArgument // unknown options are assumed to take an optional argument
		if lastOpt.spec != nil {
			arity = lastOpt.spec.Arity
		}
		for i := range all {
			all[i].optional = true
		}
		if arity == NoArgument {
			return c38Expect{typ: ChainShortOption, extra: all}
		}
		lastOpt.optional = false
		return c38Expect{typ: OptionArgument, opt: &lastOpt, extra: all[:len(all)-1]}
	default:
		return c38Expect{typ: Argument, text: last}
	}
}

// c38JudgeComplete: Complete(args) must interpret args[:n-1] as parsing does
// (reference reading pre) and describe the last element as documented.
func c38JudgeComplete(opts []*Option, nonOpts []string, ctx Context, pre *c38Result, exp c38Expect) (string, string) {
	want := pre.opts
	if pre.pending != nil || len(exp.extra) > 0 {
		want = append(make([]c38Opt, 0, len(pre.opts)+1+len(exp.extra)), pre.opts...)
	}
	if pre.pending != nil {
		p := *pre.pending
		p.optional, p.argAny = true, true
		want = append(want, p)
	}
	// the first len(pre.opts) options are the prefix's options, exactly
	if m := c38MatchOpts(opts, append(want, exp.extra...)); m != "" {
		return "complete-prefix-options-mismatch", "options " + c38ShowOpts(opts) + ": " + m
	}
	if !c38SameStrings(nonOpts, pre.nonOpts) {
		return "complete-prefix-nonoption-args-mismatch", fmt.Sprintf("non-option arguments %q, expected %q", nonOpts, pre.nonOpts)
	}
	if exp.notJudged != "" {
		return "", ""
	}
	if ctx.Type != exp.typ {
		return "complete-context-type", fmt.Sprintf("context type %v, expected %v", ctx.Type, exp.typ)
	}
	switch exp.typ {
	case LongOption, Argument:
		if ctx.Text != exp.text {
			return "complete-context-text", fmt.Sprintf("context %v text %q, expected %q", ctx.Type, ctx.Text, exp.text)
		}
	case OptionArgument:
		if !c38Match(ctx.Option, exp.opt) {
			return "complete-context-option", fmt.Sprintf("context option %s, expected %s", c38ShowOpt(ctx.Option), c38ShowWant([]c38Opt{*exp.opt}))
		}
	}
	return "", ""
}

// c38SpecSets returns all subsets of at most k of the specs, smallest first.
func c38SpecSets(k int) [][]int {
	var out [][]int
	var rec func(start int, cur []int, size int)
	rec = func(start int, cur []int, size int) {
		if len(cur) == size {
			out = append(out, append([]int{}, cur...))
			return
		}
		for i := start; i < len(c38Specs); i++ {
			rec(i+1, append(cur, i), size)
		}
	}
	for size := 0; size <= k; size++ {
		rec(0, nil, size)
	}
	return out
}

var c38ErrDigits = [8]string{"0", "1", "2", "3", "4", "5", "6", "7"}
var c38CtxNames = [6]string{OptionOrArgument: "OptionOrArgument", AnyOption: "AnyOption", LongOption: "LongOption", ChainShortOption: "ChainShortOption", OptionArgument: "OptionArgument", Argument: "Argument"}

func c38Class(kind byte, cfg Config, roles []byte, tail string) string {
	var b [64]byte
	n := 0
	b[n], b[n+1], b[n+2], b[n+3] = kind, '/', '0'+byte(cfg), '/'
	n += 4
	n += copy(b[n:], roles)
	b[n] = '/'
	n++
	n += copy(b[n:], tail)
	return string(b[:n])
}

// c38Verdict is the outcome of one case.
type c38Verdict struct {
	key, msg      string // violation ("" = none)
	attributable  bool   // a mismatch against the reference (not a panic / invariant), see c38Attribute
	class         string
	counter       byte // 'd' / 'a' not judged (double dash / abbreviation), 'j' judged, 0 other
	secondReading bool
}

func c38RunParse(args []string, specs []*OptionSpec, cfg Config) c38Verdict {
	var opts []*Option
	var nonOpts []string
	var err error
	if p := vk.Try(func() { opts, nonOpts, err = Parse(append([]string{}, args...), specs, cfg) }); p != "" {
		return c38Verdict{key: "panic:" + vk.PanicSite(p), msg: "panicked: " + p, class: "panic"}
	}
	if k, m := c38Invariant(opts, nil); k != "" {
		return c38Verdict{key: k, msg: m, class: "inv:" + k}
	}
	ref, sc := c38Ref(args, specs, cfg, true)
	defer c38Free(sc)
	if ref.notJudged != "" {
		return c38Verdict{class: c38Class('P', cfg, nil, "nj:"+ref.notJudged), counter: ref.notJudged[0]}
	}
	v := c38Verdict{class: c38Class('P', cfg, ref.roles, c38ErrDigits[ref.errs&7]), counter: 'j'}
	v.key, v.msg = c38JudgeParse(opts, nonOpts, err, ref)
	if v.key != "" && ref.ambiguous {
		v.secondReading = true
		ref2, sc2 := c38Ref(args, specs, cfg, false)
		if k2, _ := c38JudgeParse(opts, nonOpts, err, ref2); k2 == "" {
			v.key, v.msg = "", ""
		}
		c38Free(sc2)
	}
	v.attributable = v.key != ""
	return v
}

func c38RunComplete(args []string, specs []*OptionSpec, cfg Config) c38Verdict {
	var opts []*Option
	var nonOpts []string
	var ctx Context
	if p := vk.Try(func() { opts, nonOpts, ctx = Complete(append([]string{}, args...), specs, cfg) }); p != "" {
		return c38Verdict{key: "panic:" + vk.PanicSite(p), msg: "panicked: " + p, class: "panic"}
	}
	if k, m := c38Invariant(opts, ctx.Option); k != "" {
		return c38Verdict{key: k, msg: m, class: "inv:" + k}
	}
	pre, sc := c38Ref(args[:len(args)-1], specs, cfg, true)
	aux := c38NewScanner(specs, cfg, true)
	defer c38Free(sc, aux)
	if pre.notJudged != "" {
		return c38Verdict{class: c38Class('C', cfg, nil, "nj:"+pre.notJudged), counter: pre.notJudged[0]}
	}
	exp := c38ExpectContext(pre, args[len(args)-1], aux)
	var v c38Verdict
	if exp.notJudged != "" {
		v = c38Verdict{class: c38Class('C', cfg, pre.roles, "ctx-nj"), counter: 'a'}
	} else {
		v = c38Verdict{class: c38Class('C', cfg, pre.roles, c38CtxNames[exp.typ]), counter: 'j'}
	}
	v.key, v.msg = c38JudgeComplete(opts, nonOpts, ctx, pre, exp)
	v.attributable = v.key != ""
	return v
}

// c38Attribute refines the key of a mismatch so that one root cause keeps one
// key: an option that is still waiting for its argument is not visible in
// Parse's result, so "a spec was matched in a form it does not declare" can
// surface as a plain mismatch. The case is re-run with every absent short form
// replaced by a character, resp. every absent long form by a name, that occurs
// in no argument; if the mismatch then disappears it is attributed to the
// corresponding invariant's key.
func c38Attribute(key string, specs []*OptionSpec, rerun func([]*OptionSpec) c38Verdict) string {
	try := func(fill func(*OptionSpec) bool) bool {
		changed := false
		cp := make([]*OptionSpec, len(specs))
		for i, sp := range specs {
			c := *sp
			if fill(&c) {
				changed = true
			}
			cp[i] = &c
		}
		if !changed {
			return false
		}
		v := rerun(cp)
		return v.key == "" && v.counter == 'j'
	}
	if try(func(sp *OptionSpec) bool {
		if sp.Short == 0 {
			sp.Short = '\uE000'
			return true
		}
		return false
	}) {
		return "short-form-matches-long-only-spec"
	}
	if try(func(sp *OptionSpec) bool {
		if sp.Long == "" {
			sp.Long = "\x01no-long-form"
			return true
		}
		return false
	}) {
		return "long-form-matches-short-only-spec"
	}
	return key
}

func TestVerifC38(t *testing.T) {
	vk.Run(t, "C38", "exploration", func(c *vk.Ctx) {
		// only the first case per violation key is reported by vk; do not
		// format (and lock for) the later ones
		var seen sync.Map
		violate := func(key string, msg func() string, replay func() string) {
			if _, dup := seen.LoadOrStore(key, true); !dup {
				c.Violate(key, msg(), replay())
			}
		}
		// the live heap is tiny and every case allocates a little: with the default
		// GC pacing 16 workers spend most of their time in collector hand-offs
		// (measured: 400 % halves the CPU time, larger values lose to page faults)
		defer debug.SetGCPercent(debug.SetGCPercent(400))
		// main pass: lists of <= 3 elements x spec sets of <= 2 (quick) / <= 3
		// (thorough) specs; long pass (thorough): lists of exactly 4 elements x
		// spec sets of <= 2 specs
		maxSpecs := vk.Pick(c, 2, 3)
		longArgs := vk.Pick(c, 0, 4)
		sets := c38SpecSets(maxSpecs)
		nSingle := len(c38SpecSets(2))
		specSets := make([][]*OptionSpec, len(sets))
		setNames := make([]string, len(sets))
		for i, set := range sets {
			var names []string
			for _, k := range set {
				specSets[i] = append(specSets[i], c38Specs[k])
				names = append(names, c38SpecNames[k])
			}
			setNames[i] = "{" + strings.Join(names, " ") + "}"
		}
		rule := fmt.Sprintf("every argument list of <=3 elements over the %d-element alphabet %q x every set of <=%d option specs from %q (%d sets) x all %d configurations %v", len(c38Args), c38Args, maxSpecs, c38SpecNames, len(sets), len(c38Configs), c38Configs)
		if longArgs > 0 {
			rule += fmt.Sprintf(", and every list of exactly %d elements x every set of <=2 specs (%d sets) x all configurations", longArgs, nSingle)
		}
		c.Rule(rule + "; each triple is one case for Parse and, if the list is non-empty, one for Complete; lists by increasing length, smallest spec sets first; class = (configuration, role of each element in the reference scan [short/chained/attached/detached/optional/unknown/invalid-UTF-8/long/=value/extraneous/consumed-argument/non-option/terminator/after-stop], error kinds, completion context type) or the reason why the case is not judged")
		c.Assume("the reference scanner (harness) is a correct reading of getopt_long(3) conventions common to GNU and BSD plus pkg/getopt's doc comments and website/ref/flag.md",
			"not judged: '--' met while StopAfterDoubleDash is off; long names that are proper prefixes of a declared long name (getopt_long abbreviations); error message texts; duplicate specs; Complete on an empty list",
			"in Parse both readings of an unknown short option followed by more characters are accepted (rest is its optional argument / the chain continues); Complete must use the documented one (optional argument)")
		c.Set("bounds", map[string]any{"max_args": 3, "max_specs": maxSpecs, "spec_sets": len(sets), "long_pass_args": longArgs, "long_pass_spec_sets": nSingle, "arg_alphabet": len(c38Args), "configs": len(c38Configs)})

		// one enumeration per exact list length, so that the first case reported
		// for a violation key is a shortest one although shards run in parallel
		run := func(nArgs, setFrom, setTo int) {
			eval := func(l *vk.Local, idx []int) {
				if len(idx) != nArgs {
					return
				}
				args := make([]string, len(idx))
				for i, k := range idx {
					args[i] = c38Args[k]
				}
				var njDash, njAbbrev, amb, judgedP, judgedC int64
				for _, cfg := range c38Configs {
					for si := setFrom; si < setTo; si++ {
						specs := specSets[si]
						describe := func() string {
							return fmt.Sprintf("args=%q specs=%s cfg=%v", args, setNames[si], cfg)
						}
						// ---- Parse ----
						v := c38RunParse(args, specs, cfg)
						if v.key != "" && v.attributable {
							v.key = c38Attribute(v.key, specs, func(sp []*OptionSpec) c38Verdict { return c38RunParse(args, sp, cfg) })
						}
						if v.key != "" {
							violate(v.key, func() string { return fmt.Sprintf("Parse: %s; %s", v.msg, describe()) }, describe)
						}
						l.Case(v.class)
						switch v.counter {
						case 'd':
							njDash++
						case 'a':
							njAbbrev++
						case 'j':
							judgedP++
						}
						if v.secondReading {
							amb++
						}
						// ---- Complete ----
						if len(args) == 0 {
							continue
						}
						v = c38RunComplete(args, specs, cfg)
						if v.key != "" && v.attributable {
							v.key = c38Attribute(v.key, specs, func(sp []*OptionSpec) c38Verdict { return c38RunComplete(args, sp, cfg) })
						}
						if v.key != "" {
							violate(v.key, func() string { return fmt.Sprintf("Complete: %s; %s", v.msg, describe()) }, describe)
						}
						l.Case(v.class)
						switch v.counter {
						case 'd':
							njDash++
						case 'a':
							njAbbrev++
						case 'j':
							judgedC++
						}
					}
				}
				c.Add("not_judged_double_dash_without_StopAfterDoubleDash", njDash)
				c.Add("not_judged_long_abbreviation", njAbbrev)
				c.Add("parse_cases_needing_second_unknown_short_reading", amb)
				c.Add("judged_parse_cases", judgedP)
				c.Add("judged_complete_cases", judgedC)
				if len(idx) >= 3 && idx[0] == 1 && idx[1] == 7 && idx[len(idx)-1] == 14 {
					c.Sample(fmt.Sprintf("%q", args))
				}
			}
			if nArgs == 0 {
				l := vk.NewLocal()
				eval(l, nil)
				c.Merge(l)
				return
			}
			c.EnumSeqs(len(c38Args), nArgs, eval)
		}
		for n := 0; n <= 3; n++ {
			run(n, 0, len(sets))
		}
		if longArgs > 0 {
			run(longArgs, 0, nSingle)
		}
	})
}
