//go:build verif

package histutil

// C29: history navigation visits matching commands newest-first, then back.
//
// Explicit-state search over the real cursors of this package (hybrid store,
// DB store, memory store, de-duplicating cursor) on top of the real pkg/store
// (bbolt file under $VERIF_SCRATCH) and of the package's in-memory DB, against
// a reference list with an index.

import (
	"errors"
	"fmt"
	"os"
	"path/filepath"
	"sort"
	"strconv"
	"strings"
	"sync"
	"sync/atomic"
	"testing"
	"time"

	bolt "go.etcd.io/bbolt"
	"src.elv.sh/pkg/store"
	"src.elv.sh/pkg/store/storedefs"
	"src.elv.sh/pkg/zzverif/vk"
)

// ---------------------------------------------------------------- worlds

const (
	c29HybridReal = iota // NewHybridStore over the real pkg/store
	c29HybridFake        // NewHybridStore over the package's in-memory DB (sequence numbers from 0)
	c29DBReal            // NewDBStore over the real pkg/store
	c29DBFake            // NewDBStore over the in-memory DB
	c29Mem               // NewMemStore(stored...)
	c29HybridNil         // NewHybridStore(nil)
)

var c29KindNames = []string{"hybrid/boltdb", "hybrid/memdb", "dbstore/boltdb", "dbstore/memdb", "memstore", "hybrid/nil"}

var c29Texts = []string{"a", "ab", "b"}
var c29Prefixes = []string{"", "a", "ab", "c"}

// c29Op is one addition after the session has started.
type c29Op struct {
	foreign bool // added by another session, directly on the database
	text    string
}

type c29World struct {
	kind   int
	stored []string // commands in the database before the session starts, oldest first
	del    int      // bit i set: stored[i] was deleted again before the session started (boltdb only)
	ops    []c29Op
	faults bool // explored with one-off database errors during navigation
}

func (w *c29World) size() int {
	n := len(w.stored) + len(w.ops)
	for m := w.del; m != 0; m &= m - 1 {
		n++
	}
	return n
}

func (w *c29World) String() string {
	var sb strings.Builder
	fmt.Fprintf(&sb, "%s stored=%q", c29KindNames[w.kind], w.stored)
	if w.faults {
		sb.WriteString(" [with injected database errors]")
	}
	if w.del != 0 {
		sb.WriteString(" deleted-before-session=[")
		for i := range w.stored {
			if w.del>>i&1 == 1 {
				fmt.Fprintf(&sb, "#%d", i)
			}
		}
		sb.WriteString("]")
	}
	sb.WriteString(" then")
	if len(w.ops) == 0 {
		sb.WriteString(" (no additions)")
	}
	for _, o := range w.ops {
		if o.foreign {
			fmt.Fprintf(&sb, " foreign-add(%q)", o.text)
		} else {
			fmt.Fprintf(&sb, " session-add(%q)", o.text)
		}
	}
	return sb.String()
}

// c29Seqs returns all sequences over c29Texts of length 0..n, shortest first.
func c29Seqs(n int) [][]string {
	out := [][]string{nil}
	prev := [][]string{nil}
	for l := 1; l <= n; l++ {
		var cur [][]string
		for _, p := range prev {
			for _, t := range c29Texts {
				s := append(append([]string{}, p...), t)
				cur = append(cur, s)
			}
		}
		out = append(out, cur...)
		prev = cur
	}
	return out
}

// c29OpSeqs returns all interleavings of at most ns session and nf foreign additions.
func c29OpSeqs(ns, nf int) [][]c29Op {
	var out [][]c29Op
	var rec func(cur []c29Op, s, f int)
	rec = func(cur []c29Op, s, f int) {
		out = append(out, append([]c29Op{}, cur...))
		for _, foreign := range []bool{false, true} {
			if foreign && f == nf || !foreign && s == ns {
				continue
			}
			for _, t := range c29Texts {
				s2, f2 := s, f
				if foreign {
					f2++
				} else {
					s2++
				}
				rec(append(cur, c29Op{foreign, t}), s2, f2)
			}
		}
	}
	rec(nil, 0, 0)
	sort.SliceStable(out, func(i, j int) bool { return len(out[i]) < len(out[j]) })
	return out
}

type c29Bounds struct {
	stored, storedDel, maxDel int // stored history length; length and number of deletions for histories with holes
	sess, forn                int // hybrid stores
	dbSess, dbForn            int // plain DB stores
	memSess                   int
	holeSess, holeForn        int // additions in worlds whose stored history has holes
	walk, smallSize, walkBig  int // length of the black-box Prev/Next walks in worlds of <= smallSize commands / in larger worlds
	layers                    int // foreign additions while a cursor is in use
	fStored, fSess, fForn     int // worlds explored with injected database errors
	maxFaults, fWalk          int // number of one-off errors per walk; length of the replayed walks with the k-th database call failing
}

func c29Popcount(m int) int {
	n := 0
	for ; m != 0; m &= m - 1 {
		n++
	}
	return n
}

func c29Worlds(b c29Bounds) []c29World {
	var ws []c29World
	hyOps := c29OpSeqs(b.sess, b.forn)
	dbOps := c29OpSeqs(b.dbSess, b.dbForn)
	memOps := c29OpSeqs(b.memSess, 0)
	holeOps := c29OpSeqs(b.holeSess, b.holeForn)
	for _, st := range c29Seqs(b.stored) {
		for _, ops := range hyOps {
			ws = append(ws, c29World{kind: c29HybridReal, stored: st, ops: ops}, c29World{kind: c29HybridFake, stored: st, ops: ops})
		}
		for _, ops := range dbOps {
			ws = append(ws, c29World{kind: c29DBReal, stored: st, ops: ops}, c29World{kind: c29DBFake, stored: st, ops: ops})
		}
		for _, ops := range memOps {
			ws = append(ws, c29World{kind: c29Mem, stored: st, ops: ops})
			if len(st) == 0 {
				ws = append(ws, c29World{kind: c29HybridNil, ops: ops})
			}
		}
	}
	// histories with holes (store:del-cmd before the session), real database only
	for _, st := range c29Seqs(b.storedDel) {
		for m := 1; m < 1<<len(st); m++ {
			if c29Popcount(m) > b.maxDel {
				continue
			}
			for _, ops := range holeOps {
				ws = append(ws, c29World{kind: c29HybridReal, stored: st, del: m, ops: ops}, c29World{kind: c29DBReal, stored: st, del: m, ops: ops})
			}
		}
	}
	// worlds explored with one-off database errors (reduced bound)
	fOps := c29OpSeqs(b.fSess, b.fForn)
	for _, st := range c29Seqs(b.fStored) {
		for _, ops := range fOps {
			for _, k := range []int{c29HybridReal, c29HybridFake, c29DBReal, c29DBFake} {
				ws = append(ws, c29World{kind: k, stored: st, ops: ops, faults: true})
			}
		}
	}
	sort.SliceStable(ws, func(i, j int) bool { return ws[i].size() < ws[j].size() })
	return ws
}

// ---------------------------------------------------------------- instances

// c29Entry is one command of the reference list.
type c29Entry struct {
	text     string
	seq      int
	seqKnown bool
}

type c29Inst struct {
	hs         Store
	view       []c29Entry   // the session's view, oldest first (reference model)
	hidden     map[int]bool // sequence numbers of commands that must not be visible
	addForeign func(text string)
	close      func()
	fdb        *c29FaultDB // non-nil in worlds with injected database errors
}

var c29FileCtr atomic.Int64

// c29RealDB is a real pkg/store over a bbolt file under $VERIF_SCRATCH. Creating
// a file per world costs milliseconds of system time, so files are reused: before
// every world the command bucket is dropped and re-created through bbolt (which
// also resets its sequence counter), giving the state of a new database.
type c29RealDB struct {
	file string
	bdb  *bolt.DB
	st   store.DBStore
}

var c29Pool struct {
	mu        sync.Mutex
	free, all []*c29RealDB
}

func c29GetReal() *c29RealDB {
	c29Pool.mu.Lock()
	var r *c29RealDB
	if n := len(c29Pool.free); n > 0 {
		r = c29Pool.free[n-1]
		c29Pool.free = c29Pool.free[:n-1]
	}
	c29Pool.mu.Unlock()
	if r == nil {
		file := filepath.Join(c29Scratch(), fmt.Sprintf("c29-%d-%d.db", os.Getpid(), c29FileCtr.Add(1)))
		bdb, err := bolt.Open(file, 0o644, &bolt.Options{Timeout: time.Second, NoSync: true, NoFreelistSync: true})
		c29Must(err, "open bolt db")
		st, err := store.NewStoreFromDB(bdb)
		c29Must(err, "create store")
		r = &c29RealDB{file, bdb, st}
		c29Pool.mu.Lock()
		c29Pool.all = append(c29Pool.all, r)
		c29Pool.mu.Unlock()
		return r
	}
	c29Must(r.bdb.Update(func(tx *bolt.Tx) error {
		if err := tx.DeleteBucket([]byte("cmd")); err != nil {
			return err
		}
		_, err := tx.CreateBucket([]byte("cmd"))
		return err
	}), "reset command bucket")
	if seq, err := r.st.NextCmdSeq(); err != nil || seq != 1 {
		panic(fmt.Sprintf("harness: reset database has NextCmdSeq %d, %v", seq, err))
	}
	return r
}

func c29PutReal(r *c29RealDB) {
	c29Pool.mu.Lock()
	c29Pool.free = append(c29Pool.free, r)
	c29Pool.mu.Unlock()
}

func c29CloseAll() {
	for _, r := range c29Pool.all {
		r.st.Close()
		os.Remove(r.file)
	}
	c29Pool.all, c29Pool.free = nil, nil
}

func c29Scratch() string {
	d := os.Getenv("VERIF_SCRATCH")
	if d == "" {
		d = "/dev/shm"
	}
	return d
}

func c29Must(err error, what string) {
	if err != nil {
		panic(fmt.Sprintf("harness: %s: %v", what, err))
	}
}

// c29Build creates the database, the store under test and performs the additions.
func c29Build(w *c29World) *c29Inst {
	inst := &c29Inst{hidden: map[int]bool{}, close: func() {}}
	var db DB
	var del func(seq int)
	switch w.kind {
	case c29HybridReal, c29DBReal:
		r := c29GetReal()
		db = r.st
		del = func(seq int) { c29Must(r.st.DelCmd(seq), "DelCmd") }
		inst.close = func() { c29PutReal(r) }
	case c29HybridFake, c29DBFake:
		db = NewFaultyInMemoryDB()
	}
	if db != nil {
		for i, t := range w.stored {
			seq, err := db.AddCmd(t)
			c29Must(err, "db.AddCmd")
			if w.del>>i&1 == 1 {
				del(seq)
				inst.hidden[seq] = true
				continue
			}
			inst.view = append(inst.view, c29Entry{t, seq, true})
		}
		inst.addForeign = func(text string) {
			seq, err := db.AddCmd(text)
			c29Must(err, "db.AddCmd (foreign)")
			inst.hidden[seq] = true
		}
	}
	if w.faults {
		inst.fdb = &c29FaultDB{DB: db}
		db = inst.fdb
	}
	var err error
	frozen := false
	switch w.kind {
	case c29HybridReal, c29HybridFake:
		inst.hs, err = NewHybridStore(db)
	case c29DBReal, c29DBFake:
		inst.hs, err = NewDBStore(db)
		frozen = true // "view of all commands frozen at creation"
	case c29Mem:
		inst.hs = NewMemStore(w.stored...)
		for _, t := range w.stored {
			inst.view = append(inst.view, c29Entry{t, 0, false})
		}
	case c29HybridNil:
		inst.hs, err = NewHybridStore(nil)
	}
	c29Must(err, "create history store")
	for _, o := range w.ops {
		if o.foreign {
			inst.addForeign(o.text)
			continue
		}
		seq, err := inst.hs.AddCmd(storedefs.Cmd{Text: o.text, Seq: -1})
		c29Must(err, "Store.AddCmd")
		if frozen {
			inst.hidden[seq] = true
		} else {
			inst.view = append(inst.view, c29Entry{o.text, seq, true})
		}
	}
	return inst
}

// ---------------------------------------------------------------- oracle

// c29Expect is the reference: the matching commands of the session's view,
// newest first; with dedup each text once, at its most recent occurrence.
func c29Expect(view []c29Entry, prefix string, dedup bool) []c29Entry {
	var out []c29Entry
	seen := map[string]bool{}
	for i := len(view) - 1; i >= 0; i-- {
		e := view[i]
		if !strings.HasPrefix(e.text, prefix) {
			continue
		}
		if dedup {
			if seen[e.text] {
				continue
			}
			seen[e.text] = true
		}
		out = append(out, e)
	}
	return out
}

// position p: -1 = past the newest end (initial), 0..n-1 = entries newest first, n = past the oldest end.
func c29Step(p, n int, prev bool) int {
	if prev {
		if p < n {
			p++
		}
		return p
	}
	if p > -1 {
		p--
	}
	return p
}

// c29Judge compares what Get returned with the reference at position p;
// returns "" or the symptom.
func c29Judge(exp []c29Entry, p int, cmd storedefs.Cmd, err error, inst *c29Inst, prefix string, dedup bool) (string, string) {
	if err != nil && err != ErrEndOfHistory {
		return "unexpected-error", fmt.Sprintf("Get returned error %v", err)
	}
	if p < 0 || p >= len(exp) {
		if err == nil {
			end := "newest"
			if p >= 0 {
				end = "oldest"
			}
			return "entry-past-" + end + "-end", fmt.Sprintf("Get returned {%q seq %d}, want ErrEndOfHistory", cmd.Text, cmd.Seq)
		}
		return "", ""
	}
	e := exp[p]
	want := fmt.Sprintf("{%q seq %d}", e.text, e.seq)
	if !e.seqKnown {
		want = fmt.Sprintf("{%q}", e.text)
	}
	if err != nil {
		return "premature-end-of-history", fmt.Sprintf("Get returned ErrEndOfHistory, want %s", want)
	}
	if cmd.Text == e.text && (!e.seqKnown || cmd.Seq == e.seq) {
		return "", ""
	}
	got := fmt.Sprintf("Get returned {%q seq %d}, want %s", cmd.Text, cmd.Seq, want)
	switch {
	case !strings.HasPrefix(cmd.Text, prefix):
		return "prefix-mismatch", got
	case e.seqKnown && inst.hidden[cmd.Seq]:
		return "command-outside-session-view", got
	case cmd.Text == e.text:
		return "wrong-occurrence", got
	}
	if dedup {
		for _, o := range exp[:p] {
			if o.text == cmd.Text {
				return "duplicate-text", got
			}
		}
	}
	return "wrong-entry", got
}

// ---------------------------------------------------------------- state identity (in-package)

func c29Clone(c Cursor) Cursor {
	switch c := c.(type) {
	case *dbStoreCursor:
		cp := *c
		return &cp
	case *memStoreCursor:
		cp := *c
		return &cp
	case *hybridStoreCursor:
		cp := *c
		cp.shared = c29Clone(c.shared)
		cp.session = c29Clone(c.session)
		return &cp
	case *dedupCursor:
		cp := *c
		cp.c = c29Clone(c.c)
		cp.stack = append([]storedefs.Cmd(nil), c.stack...)
		cp.occ = make(map[string]bool, len(c.occ))
		for k, v := range c.occ {
			cp.occ[k] = v
		}
		return &cp
	}
	panic(fmt.Sprintf("harness: unknown cursor type %T", c))
}

func c29FP(c Cursor) string { return string(c29AppendFP(nil, c)) }

func c29AppendFP(b []byte, c Cursor) []byte {
	switch c := c.(type) {
	case *dbStoreCursor:
		b = append(b, "db{"...)
		b = strconv.AppendInt(b, int64(c.cmd.Seq), 10)
		b = strconv.AppendQuote(b, c.cmd.Text)
		if c.err != nil {
			b = append(b, c.err.Error()...)
		}
		return append(b, '}')
	case *memStoreCursor:
		b = append(b, "mem{"...)
		b = strconv.AppendInt(b, int64(c.index), 10)
		b = append(b, '/')
		b = strconv.AppendInt(b, int64(len(c.cmds)), 10)
		return append(b, '}')
	case *hybridStoreCursor:
		b = append(b, "hy{"...)
		b = c29AppendFP(b, c.shared)
		b = c29AppendFP(b, c.session)
		b = strconv.AppendBool(b, c.useShared)
		return append(b, '}')
	case *dedupCursor:
		b = append(b, "dd{"...)
		b = c29AppendFP(b, c.c)
		b = strconv.AppendInt(b, int64(c.current), 10)
		for _, e := range c.stack {
			b = append(b, ' ')
			b = strconv.AppendInt(b, int64(e.Seq), 10)
			b = strconv.AppendQuote(b, e.Text)
		}
		var occ []string
		for k, v := range c.occ {
			if v {
				occ = append(occ, k)
			}
		}
		sort.Strings(occ)
		for _, k := range occ {
			b = append(b, '|')
			b = strconv.AppendQuote(b, k)
		}
		return append(b, '}')
	}
	panic(fmt.Sprintf("harness: unknown cursor type %T", c))
}

// ---------------------------------------------------------------- violations (deterministic: smallest world wins)

type c29Viol struct {
	world int
	msg   string
}

type c29Collector struct {
	mu sync.Mutex
	m  map[string]c29Viol
}

func (vc *c29Collector) report(key string, world int, msg string) {
	vc.mu.Lock()
	defer vc.mu.Unlock()
	if old, ok := vc.m[key]; ok && (old.world < world || old.world == world && (len(old.msg) < len(msg) || len(old.msg) == len(msg) && old.msg <= msg)) {
		return
	}
	vc.m[key] = c29Viol{world, msg}
}

// ---------------------------------------------------------------- exploration of one (world, prefix, dedup)

type c29Node struct {
	cur  Cursor
	p    int
	path string
}

type c29Stats struct {
	states, transitions, traces, steps, cases int64
	// exploration with injected database errors
	fStates, fTransitions, fTraces, fCases, fInjected, fReported int64
	njStale, njNotReported                                       int64
}

func (t *c29Stats) add(o *c29Stats) {
	t.states += o.states
	t.transitions += o.transitions
	t.traces += o.traces
	t.steps += o.steps
	t.cases += o.cases
	t.fStates += o.fStates
	t.fTransitions += o.fTransitions
	t.fTraces += o.fTraces
	t.fCases += o.fCases
	t.fInjected += o.fInjected
	t.fReported += o.fReported
	t.njStale += o.njStale
	t.njNotReported += o.njNotReported
}

type c29CursorWorld struct {
	inst   *c29Inst
	prefix string
	dedup  bool
	exp    []c29Entry
	nodes  []c29Node // all product states found so far (all layers)
	bad    bool
	report func(symptom, path, detail string)
}

func (cw *c29CursorWorld) mk() Cursor {
	c := cw.inst.hs.Cursor(cw.prefix)
	if cw.dedup {
		c = NewDedupCursor(c)
	}
	return c
}

func (cw *c29CursorWorld) judge(c Cursor, p int, path string) bool {
	cmd, err := c.Get()
	if sym, detail := c29Judge(cw.exp, p, cmd, err, cw.inst, cw.prefix, cw.dedup); sym != "" {
		cw.bad = true
		cw.report(sym, path, detail)
		return false
	}
	return true
}

// bfs explores the product (cursor state x reference position) to a fixpoint,
// starting from seeds; the stored cursors are never stepped, only clones.
func (cw *c29CursorWorld) bfs(seeds []c29Node, st *c29Stats) {
	seen := map[string]bool{}
	var queue []c29Node
	for _, s := range seeds {
		k := c29FP(s.cur) + "|" + strconv.Itoa(s.p)
		if !seen[k] {
			seen[k] = true
			queue = append(queue, s)
		}
	}
	n := len(cw.exp)
	for qi := 0; qi < len(queue); qi++ {
		nd := queue[qi]
		for op := 0; op < 2; op++ {
			c2 := c29Clone(nd.cur)
			path := nd.path
			if op == 0 {
				c2.Prev()
				path += "P"
			} else {
				c2.Next()
				path += "N"
			}
			p2 := c29Step(nd.p, n, op == 0)
			st.transitions++
			if !cw.judge(c2, p2, path) {
				continue
			}
			k := c29FP(c2) + "|" + strconv.Itoa(p2)
			if !seen[k] {
				seen[k] = true
				queue = append(queue, c29Node{c2, p2, path})
			}
		}
		if len(queue) > 100000 {
			panic("harness: cursor state space does not close")
		}
	}
	st.states += int64(len(queue))
	cw.nodes = queue
}

// walks replays every Prev/Next sequence of exactly L steps (so every sequence
// of <= L steps as a prefix) on a fresh cursor through the public interface only.
func (cw *c29CursorWorld) walks(L int, st *c29Stats) {
	n := len(cw.exp)
	buf := make([]byte, L)
	for mask := 0; mask < 1<<L; mask++ {
		c := cw.mk()
		p := -1
		st.traces++
		for i := 0; i < L; i++ {
			prev := mask>>i&1 == 0
			if prev {
				c.Prev()
				buf[i] = 'P'
			} else {
				c.Next()
				buf[i] = 'N'
			}
			p = c29Step(p, n, prev)
			st.steps++
			if !cw.judge(c, p, string(buf[:i+1])) {
				return
			}
		}
	}
}

func c29Class(w *c29World, inst *c29Inst, prefix string, dedup bool, exp []c29Entry) string {
	nShared, nSess, nAll := 0, 0, 0
	for i, e := range inst.view {
		if strings.HasPrefix(e.text, prefix) {
			nAll++
			if i < len(w.stored)-c29Popcount(w.del) {
				nShared++
			} else {
				nSess++
			}
		}
	}
	nf := 0
	for _, o := range w.ops {
		if o.foreign && strings.HasPrefix(o.text, prefix) {
			nf++
		}
	}
	d := ""
	if dedup {
		d = fmt.Sprintf("+dedup(-%d)", nAll-len(exp))
	}
	return fmt.Sprintf("%s%s prefix=%q old=%d session=%d hidden=%d holes=%d", c29KindNames[w.kind], d, prefix, nShared, nSess, nf, c29Popcount(w.del))
}

var c29LayerTexts = []string{"ab", "a"}

func c29RunWorld(wi int, w *c29World, b c29Bounds, vc *c29Collector, l *vk.Local, st *c29Stats) {
	inst := c29Build(w)
	defer inst.close()
	var cws []*c29CursorWorld
	for _, prefix := range c29Prefixes {
		for _, dedup := range []bool{false, true} {
			prefix, dedup := prefix, dedup
			cw := &c29CursorWorld{inst: inst, prefix: prefix, dedup: dedup, exp: c29Expect(inst.view, prefix, dedup)}
			kind := c29KindNames[w.kind]
			if dedup {
				kind += "+dedup"
			}
			cw.report = func(symptom, path, detail string) {
				vc.report(symptom+":"+kind, wi, fmt.Sprintf("%s; cursor for prefix %q (dedup=%v), steps %q (P=Prev, N=Next, F=foreign add): %s; reference list newest first: %s",
					w, prefix, dedup, path, detail, c29ShowList(cw.exp)))
			}
			if dedup && cws[len(cws)-1].bad {
				// the plain cursor for this world and prefix is already wrong: a
				// de-duplicating cursor stacked on it is not explored
				cw.bad = true
				cws = append(cws, cw)
				continue
			}
			l.Begin(fmt.Sprintf("%s; cursor for prefix %q (dedup=%v)", w, prefix, dedup))
			if p := vk.Try(func() {
				start := cw.mk()
				if cw.judge(start, -1, "") {
					cw.bfs([]c29Node{{start, -1, ""}}, st)
				}
				if !cw.bad {
					if w.size() <= b.smallSize {
						cw.walks(b.walk, st)
					} else {
						cw.walks(b.walkBig, st)
					}
				}
			}); p != "" {
				if strings.Contains(p, "harness:") {
					panic(p)
				}
				cw.bad = true
				vc.report("panic:"+vk.PanicSite(p), wi, fmt.Sprintf("%s; cursor for prefix %q (dedup=%v): panic %s", w, prefix, dedup, p))
			}
			l.End()
			st.cases++
			l.Case(c29Class(w, inst, prefix, dedup, cw.exp))
			cws = append(cws, cw)
		}
	}
	// foreign additions while cursors are in use: every reached state continues on the changed database
	if inst.addForeign == nil {
		return
	}
	for layer := 0; layer < b.layers; layer++ {
		inst.addForeign(c29LayerTexts[layer])
		for _, cw := range cws {
			if cw.bad {
				continue
			}
			l.Begin(fmt.Sprintf("%s; cursor for prefix %q (dedup=%v), after a foreign add during the walk", w, cw.prefix, cw.dedup))
			if p := vk.Try(func() {
				var seeds []c29Node
				for _, nd := range cw.nodes {
					nd.path += "F"
					st.transitions++
					if cw.judge(nd.cur, nd.p, nd.path) {
						seeds = append(seeds, nd)
					}
				}
				cw.bfs(seeds, st)
			}); p != "" {
				if strings.Contains(p, "harness:") {
					panic(p)
				}
				cw.bad = true
				vc.report("panic:"+vk.PanicSite(p), wi, fmt.Sprintf("%s; cursor for prefix %q (dedup=%v), after a foreign add during the walk: panic %s", w, cw.prefix, cw.dedup, p))
			}
			l.End()
		}
	}
}

// ---------------------------------------------------------------- environment faults: one-off database errors

var c29ErrInjected = errors.New("injected one-off database error")

// c29FaultDB wraps the database under the store; the armed-th PrevCmd/NextCmd
// call from now on (the only calls cursors make) fails once with c29ErrInjected.
type c29FaultDB struct {
	DB
	armed int
	calls int
}

func (f *c29FaultDB) hit() error {
	f.calls++
	if f.armed > 0 {
		f.armed--
		if f.armed == 0 {
			return c29ErrInjected
		}
	}
	return nil
}

func (f *c29FaultDB) PrevCmd(upto int, prefix string) (storedefs.Cmd, error) {
	if err := f.hit(); err != nil {
		return storedefs.Cmd{}, err
	}
	return f.DB.PrevCmd(upto, prefix)
}

func (f *c29FaultDB) NextCmd(from int, prefix string) (storedefs.Cmd, error) {
	if err := f.hit(); err != nil {
		return storedefs.Cmd{}, err
	}
	return f.DB.NextCmd(from, prefix)
}

// With faults the reference is a set of possible positions (bit p+1 for
// position p in -1..n): the documentation does not say whether a step on which
// the database fails moves the cursor, so both are allowed; everything Get
// yields without an error must still be the reference entry at a possible position.
func c29StepSet(cand uint32, n int, prev bool) uint32 {
	var out uint32
	for p := -1; p <= n; p++ {
		if cand>>(p+1)&1 == 1 {
			out |= 1 << (c29Step(p, n, prev) + 1)
		}
	}
	return out
}

func c29ShowSet(cand uint32, n int) string {
	var parts []string
	for p := -1; p <= n; p++ {
		if cand>>(p+1)&1 == 1 {
			parts = append(parts, strconv.Itoa(p))
		}
	}
	return "{" + strings.Join(parts, ",") + "}"
}

// judgeF judges Get after one step from the possible positions cand; faulted
// says whether a database call failed during the step. It returns the new
// possible positions, or ok=false after reporting a violation.
func (cw *c29CursorWorld) judgeF(c Cursor, cand uint32, prev, faulted bool, path string, st *c29Stats) (uint32, bool) {
	n := len(cw.exp)
	allowed := c29StepSet(cand, n, prev)
	if faulted {
		allowed |= cand
		st.fInjected++
	}
	cmd, err := c.Get()
	if err != nil && err != ErrEndOfHistory {
		if faulted {
			st.fReported++
		} else {
			// an error although no database call failed on this step (a stale
			// one): not judged, the position is unknown within cand | allowed
			st.njStale++
		}
		return allowed | cand, true
	}
	if faulted {
		st.njNotReported++ // judged only for the position
	}
	if err == ErrEndOfHistory {
		ends := allowed & (1 | 1<<(n+1))
		if ends == 0 {
			cw.bad = true
			cw.report("premature-end-of-history-after-db-error", path, fmt.Sprintf("Get returned ErrEndOfHistory, but the possible reference positions are %s", c29ShowSet(allowed, n)))
			return 0, false
		}
		return ends, true
	}
	var match uint32
	for p := 0; p < n; p++ {
		if allowed>>(p+1)&1 == 1 && cw.exp[p].text == cmd.Text && (!cw.exp[p].seqKnown || cw.exp[p].seq == cmd.Seq) {
			match |= 1 << (p + 1)
		}
	}
	if match != 0 {
		return match, true
	}
	sym := "wrong-entry-after-db-error"
	inHistory := false
	for _, e := range cw.exp {
		if e.text == cmd.Text && (!e.seqKnown || e.seq == cmd.Seq) {
			inHistory = true
		}
	}
	if !inHistory {
		sym = "phantom-entry-after-db-error"
	}
	cw.bad = true
	cw.report(sym, path, fmt.Sprintf("Get returned {%q seq %d} without error, but the possible reference positions are %s", cmd.Text, cmd.Seq, c29ShowSet(allowed, n)))
	return 0, false
}

type c29FNode struct {
	cur  Cursor
	cand uint32
	used int
	path string
}

// bfsFaults explores (cursor state x possible positions x errors used) under
// {Prev, Next, Prev/Next with the j-th database call of the step failing} to a
// fixpoint, with at most maxFaults failing calls per walk (one per step).
func (cw *c29CursorWorld) bfsFaults(maxFaults int, st *c29Stats) {
	fdb := cw.inst.fdb
	start := c29FNode{cw.mk(), 1, 0, ""}
	if !cw.judge(start.cur, -1, "") {
		return
	}
	key := func(nd c29FNode) string {
		return c29FP(nd.cur) + "|" + strconv.Itoa(int(nd.cand)) + "|" + strconv.Itoa(nd.used)
	}
	seen := map[string]bool{key(start): true}
	queue := []c29FNode{start}
	for qi := 0; qi < len(queue); qi++ {
		nd := queue[qi]
		for op := 0; op < 2; op++ {
			prev := op == 0
			opName := "N"
			if prev {
				opName = "P"
			}
			do := func(c Cursor) {
				if prev {
					c.Prev()
				} else {
					c.Next()
				}
			}
			try := func(c2 Cursor, faulted bool, path string, used int) {
				st.fTransitions++
				cand, ok := cw.judgeF(c2, nd.cand, prev, faulted, path, st)
				if !ok {
					return
				}
				n2 := c29FNode{c2, cand, used, path}
				if k := key(n2); !seen[k] {
					seen[k] = true
					queue = append(queue, n2)
				}
			}
			c2 := c29Clone(nd.cur)
			fdb.calls, fdb.armed = 0, 0
			do(c2)
			ncalls := fdb.calls
			try(c2, false, nd.path+opName, nd.used)
			if nd.used >= maxFaults {
				continue
			}
			for j := 1; j <= ncalls; j++ {
				c3 := c29Clone(nd.cur)
				fdb.armed = j
				do(c3)
				fired := fdb.armed == 0
				fdb.armed = 0
				if !fired {
					panic("harness: armed database error did not fire")
				}
				try(c3, true, fmt.Sprintf("%s%s!%d", nd.path, opName, j), nd.used+1)
			}
		}
		if len(queue) > 200000 {
			panic("harness: cursor state space with faults does not close")
		}
	}
	st.fStates += int64(len(queue))
}

// walksFaults replays every Prev/Next sequence of L steps on a fresh cursor
// through the public interface, first without errors to count the database
// calls, then once for every k with exactly the k-th database call failing.
func (cw *c29CursorWorld) walksFaults(L int, st *c29Stats) {
	fdb := cw.inst.fdb
	for mask := 0; mask < 1<<L; mask++ {
		total := -1
		for k := 0; total < 0 || k <= total; k++ {
			c := cw.mk()
			fdb.calls, fdb.armed = 0, k
			cand := uint32(1)
			path := ""
			st.fTraces++
			for i := 0; i < L; i++ {
				prev := mask>>i&1 == 0
				before := fdb.armed
				if prev {
					c.Prev()
					path += "P"
				} else {
					c.Next()
					path += "N"
				}
				faulted := before > 0 && fdb.armed == 0
				if faulted {
					path += "!"
				}
				var ok bool
				if cand, ok = cw.judgeF(c, cand, prev, faulted, path, st); !ok {
					fdb.armed = 0
					return
				}
			}
			fdb.armed = 0
			if k == 0 {
				total = fdb.calls
			}
		}
	}
}

func c29RunFaultWorld(wi int, w *c29World, b c29Bounds, vc *c29Collector, l *vk.Local, st *c29Stats) {
	inst := c29Build(w)
	defer inst.close()
	for _, prefix := range c29Prefixes {
		for _, dedup := range []bool{false, true} {
			prefix, dedup := prefix, dedup
			cw := &c29CursorWorld{inst: inst, prefix: prefix, dedup: dedup, exp: c29Expect(inst.view, prefix, dedup)}
			kind := c29KindNames[w.kind]
			if dedup {
				kind += "+dedup"
			}
			cw.report = func(symptom, path, detail string) {
				vc.report(symptom+":"+kind, wi, fmt.Sprintf("%s; cursor for prefix %q (dedup=%v), steps %q (P=Prev, N=Next, !j = the j-th database call of that step fails once): %s; reference list newest first (position 0 = newest, -1 / %d = past the ends): %s",
					w, prefix, dedup, path, detail, len(cw.exp), c29ShowList(cw.exp)))
			}
			l.Begin(fmt.Sprintf("%s; cursor for prefix %q (dedup=%v)", w, prefix, dedup))
			if p := vk.Try(func() {
				cw.bfsFaults(b.maxFaults, st)
				if !cw.bad {
					cw.walksFaults(b.fWalk, st)
				}
			}); p != "" {
				if strings.Contains(p, "harness:") {
					panic(p)
				}
				inst.fdb.armed = 0
				vc.report("panic-after-db-error:"+vk.PanicSite(p), wi, fmt.Sprintf("%s; cursor for prefix %q (dedup=%v): panic %s", w, prefix, dedup, p))
			}
			l.End()
			st.fCases++
			l.Case("faults " + c29Class(w, inst, prefix, dedup, cw.exp))
		}
	}
}

func c29ShowList(exp []c29Entry) string {
	var parts []string
	for _, e := range exp {
		if e.seqKnown {
			parts = append(parts, fmt.Sprintf("%q#%d", e.text, e.seq))
		} else {
			parts = append(parts, fmt.Sprintf("%q", e.text))
		}
	}
	return "[" + strings.Join(parts, " ") + "]"
}

func TestVerifC29(t *testing.T) {
	vk.Run(t, "C29", "model_checking", func(c *vk.Ctx) {
		b := vk.Pick(c,
			c29Bounds{stored: 3, storedDel: 3, maxDel: 1, sess: 2, forn: 2, dbSess: 1, dbForn: 1, memSess: 2, holeSess: 1, holeForn: 1, walk: 8, smallSize: 3, walkBig: 6, layers: 1, fStored: 3, fSess: 1, fForn: 1, maxFaults: 1, fWalk: 4},
			c29Bounds{stored: 4, storedDel: 3, maxDel: 3, sess: 2, forn: 2, dbSess: 2, dbForn: 1, memSess: 3, holeSess: 1, holeForn: 1, walk: 8, smallSize: 5, walkBig: 6, layers: 2, fStored: 3, fSess: 2, fForn: 1, maxFaults: 2, fWalk: 5})
		worlds := c29Worlds(b)
		c.Rule(fmt.Sprintf("world = (store kind in %q, stored history = every sequence of <=%d commands over %q [boltdb kinds also: every history of <=%d commands with 1..%d of them deleted before the session], every interleaving of <=%d session and <=%d foreign additions over the same texts for hybrid stores (<=%d/<=%d for plain DB stores, <=%d/<=%d for histories with holes, <=%d session additions for memory stores)); in every world every prefix in %q with and without NewDedupCursor: breadth-first search of the product (exact cursor state x reference position) under {Prev, Next} to a fixpoint (i.e. walks of every length), continued from every reached state after each of %d further foreign addition(s) made while the cursors are live, plus every Prev/Next walk of <=%d steps (<=%d steps in worlds with more than %d commands in total) replayed on a fresh cursor through the Cursor interface only; Get is compared with the reference after every step; environment faults: in the hybrid and plain DB worlds with <=%d stored commands and <=%d session / <=%d foreign additions the database is wrapped and the search is repeated with the extra transitions \"step during which the j-th database call fails once\" (every j up to the number of calls the step makes, <=%d failing call(s) per walk) over (cursor state x set of possible reference positions x errors used) to a fixpoint, plus every walk of %d steps replayed with exactly the k-th database call failing for every k up to the number of calls of the error-free replay; worlds simplest first; class = (store kind, dedup and number of removed duplicates, prefix, matching old / session / hidden commands, holes)",
			c29KindNames, b.stored, c29Texts, b.storedDel, b.maxDel, b.sess, b.forn, b.dbSess, b.dbForn, b.holeSess, b.holeForn, b.memSess, c29Prefixes, b.layers, b.walk, b.walkBig, b.smallSize, b.fStored, b.fSess, b.fForn, b.maxFaults, b.fWalk))
		c.Assume(
			"reference: the session's view is the commands present in the database when the store was created plus the session's own additions (none for NewDBStore, whose view is documented as frozen), filtered by prefix, newest first, with dedup each text once at its most recent occurrence; an index into it clamped at one-past either end; Get must report ErrEndOfHistory exactly at the two one-past positions",
			"foreign additions are made directly on the same database object (what the daemon does on behalf of another session); database errors during store creation or AddCmd, two failing calls within one step, session additions while a cursor is live and concurrent use of one cursor are not covered",
			"the command returned together with ErrEndOfHistory and sequence numbers of NewMemStore's initial commands are not judged",
			"with an injected database error the documentation leaves open whether the failing step moves the cursor and whether Get must report the error: both positions are allowed afterwards, an unreported error with a consistent position and an error reported again on a later step without a failing call are counted as not judged; judged: whatever Get yields without error is the reference entry at a possible position (so an actual history entry matching the prefix, in order, without repeats), ErrEndOfHistory only at a possible end, and the walk continues consistently after the error",
			"state identity for the search uses the cursors' private fields (in-package); the replayed walks do not")
		c.Set("bounds", fmt.Sprintf("%+v", b))
		c.Set("worlds", len(worlds))
		vc := &c29Collector{m: map[string]c29Viol{}}
		var tot c29Stats
		var mu sync.Mutex
		watched := map[*vk.Local]bool{}
		c.Parallel(len(worlds), func(l *vk.Local, i int) {
			mu.Lock()
			if !watched[l] {
				watched[l] = true
				c.Watch(l) // non-termination watchdog (a cursor step that never returns)
			}
			mu.Unlock()
			if c.TimeUp() {
				c.Capped("time budget reached; remaining (larger) worlds not explored")
				return
			}
			var st c29Stats
			if worlds[i].faults {
				c29RunFaultWorld(i, &worlds[i], b, vc, l, &st)
			} else {
				c29RunWorld(i, &worlds[i], b, vc, l, &st)
			}
			mu.Lock()
			tot.add(&st)
			mu.Unlock()
		})
		c29CloseAll()
		var keys []string
		for k := range vc.m {
			keys = append(keys, k)
		}
		sort.Strings(keys)
		for _, k := range keys {
			v := vc.m[k]
			c.Violate(k, v.msg, worlds[v.world].String())
		}
		for _, i := range []int{0, len(worlds) / 3, len(worlds) / 2, len(worlds) - 1} {
			c.Sample(worlds[i].String())
		}
		c.Set("states", tot.states)
		c.Set("transitions", tot.transitions)
		c.Set("traces_validated_against_impl", tot.traces)
		c.Set("trace_steps", tot.steps)
		c.Set("cursor_worlds", tot.cases)
		c.Set("fault_cursor_worlds", tot.fCases)
		c.Set("fault_states", tot.fStates)
		c.Set("fault_transitions", tot.fTransitions)
		c.Set("fault_traces_validated_against_impl", tot.fTraces)
		c.Set("faults_injected", tot.fInjected)
		c.Set("faults_reported_by_get", tot.fReported)
		c.Set("not_judged_fault_not_reported_position_consistent", tot.njNotReported)
		c.Set("not_judged_stale_error_on_later_step", tot.njStale)
	})
}
