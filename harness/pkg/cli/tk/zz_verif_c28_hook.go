//go:build verif

package tk

// Verification hook for property C28 (only compiled with -tags verif, added by
// the build overlay): lets the C28 harness in package edit take an exact
// snapshot of a code area (public state + the private insertion / paste
// bookkeeping) and re-create a code area in a snapshotted state, so that the
// explicit-state search can de-duplicate and branch on the *real* state.

// C28Private is the private part of a codeArea's state.
type C28Private struct {
	Inserts string
	Last    CodeBuffer
	Pasting bool
	Paste   string
}

// C28Snap returns the complete state of a code area created by NewCodeArea.
func C28Snap(w CodeArea) (CodeAreaState, C28Private) {
	c := w.(*codeArea)
	return c.State, C28Private{Inserts: c.inserts, Last: c.lastCodeBuffer, Pasting: c.pasting, Paste: c.pasteBuffer.String()}
}

// C28Restore creates a code area with the given spec in the given state.
func C28Restore(spec CodeAreaSpec, st CodeAreaState, p C28Private) CodeArea {
	spec.State = st
	c := NewCodeArea(spec).(*codeArea)
	c.inserts = p.Inserts
	c.lastCodeBuffer = p.Last
	c.pasting = p.Pasting
	if p.Paste != "" {
		c.pasteBuffer.WriteString(p.Paste)
	}
	return c
}
