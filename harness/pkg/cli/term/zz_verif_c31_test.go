//go:build verif

package term

import (
	"fmt"
	"math/bits"
	"os"
	"sync"
	"syscall"
	"testing"
	"time"
	"unicode"
	"unicode/utf8"

	"golang.org/x/sys/unix"
	"src.elv.sh/pkg/sys/eunix"
	"src.elv.sh/pkg/zzverif/vk"
	"src.elv.sh/pkg/zzverif/vsched"
)

// C31: terminal input decoding is total, never blocks past its timeout
// mid-sequence, and is lossless for plain text.
//
// The real reader (reader.ReadEvent -> readEvent -> readRune) is driven through
// its private byte source interface with a fake terminal that serves a finite
// byte stream, optionally with pauses (longer than the reader's timeout) before
// chosen bytes, and answers "timed out" once the stream is exhausted.

// Byte alphabet of the plan: ESC, the CSI/SS3/mouse/CPR structure bytes, digits,
// terminators, a plain letter, two control bytes, and UTF-8 fragments (a valid
// 2-byte pair C3 A9, a 4-byte leader, an invalid byte).
var c31Alphabet = []string{"\x1b", "[", "O", "<", "M", ";", "0", "1", "2", "7", "~", "A", "R", "m", "a",
	"\x00", "\x7f", "\xc3", "\xa9", "\xf0", "\xff"}

// Rune set for the plain-text sequences: bytes that are structural inside
// escape sequences but plain outside them, and the boundary values of every
// UTF-8 encoding length (plus U+FFFD, which the reader also uses internally as
// its "bad rune" marker).
var c31Runes = []rune{'a', ' ', '~', '[', 'O', ';', '0', 'M', 0xa0, 'é', 0x7ff, 0x800, '好', 0xfffd, 0x10000, 0x10ffff}

// Streams of up to this many bytes are run with every set of pauses; longer
// ones (thorough tier only) with every set of at most two pauses.
const c31AllPausesLen = 5

type c31Runaway struct{}

// c31Fake is the fake terminal. It implements fileReader.
type c31Fake struct {
	data  []byte
	pos   int
	pause uint32 // bit k: a pause longer than any timeout precedes byte k
	limit int    // maximal number of reads per call before the call is declared runaway

	// record of the current ReadEvent call
	reads            int
	timeouts         int
	midBlocking      bool // a read other than the first had no timeout
	readAfterTimeout bool // a read was issued after a read had already timed out
}

func (f *c31Fake) ReadByteWithTimeout(timeout time.Duration) (byte, error) {
	f.reads++
	if f.reads > f.limit {
		panic(c31Runaway{})
	}
	if f.timeouts > 0 {
		f.readAfterTimeout = true
	}
	if f.reads > 1 && timeout < 0 {
		f.midBlocking = true
	}
	if f.pos >= len(f.data) {
		// Nothing will ever arrive. (A read without timeout would block forever
		// here; that is flagged through midBlocking and answered like a timeout
		// so that the run can go on.)
		f.timeouts++
		return 0, errTimeout
	}
	if f.pause&(1<<uint(f.pos)) != 0 {
		f.pause &^= 1 << uint(f.pos)
		if timeout >= 0 {
			f.timeouts++
			return 0, errTimeout
		}
	}
	b := f.data[f.pos]
	f.pos++
	return b, nil
}

func (f *c31Fake) Stop() error { return nil }
func (f *c31Fake) Close()      {}

type c31Outcome struct {
	from, to int
	ev       Event
	err      error
}

type c31Result struct {
	outs  []c31Outcome
	key   string // violation key, "" if none
	msg   string
	class []byte
	fake  c31Fake // reused between runs to keep the enumeration allocation-light
	rd    reader
}

// c31Drive feeds one stream with one pause mask through the real reader until
// the stream is consumed, then probes once more at the end of the stream. It
// checks the totality / no-blocking clauses on every call.
func c31Drive(res *c31Result, data []byte, mask uint32) {
	res.outs = res.outs[:0]
	res.class = res.class[:0]
	res.key, res.msg = "", ""
	res.fake = c31Fake{data: data, pause: mask, limit: len(data) + 8}
	fake := &res.fake
	res.rd = reader{fr: fake}
	rd := &res.rd
	fail := func(key, msg string) {
		if res.key == "" {
			res.key = key
			res.msg = fmt.Sprintf("stream %q pauses-before-bytes %s: %s", data, c31Mask(mask, len(data)), msg)
		}
	}
	calls := 0
	for {
		atEnd := fake.pos >= len(data)
		from := fake.pos
		fake.reads, fake.timeouts, fake.midBlocking, fake.readAfterTimeout = 0, 0, false, false
		var ev Event
		var err error
		p := vk.Try(func() { ev, err = rd.ReadEvent() })
		runaway := fake.reads > fake.limit
		calls++
		if runaway {
			fail("runaway-reads", fmt.Sprintf("call %d starting at byte %d issued more than %d reads without returning", calls, from, fake.limit))
			return
		}
		if p != "" {
			fail("panic:"+vk.PanicSite(p), fmt.Sprintf("call %d starting at byte %d panicked: %s", calls, from, p))
			return
		}
		if fake.midBlocking {
			fail("blocking-read-mid-sequence", fmt.Sprintf("call %d starting at byte %d issued a read without timeout after its first read (read %d of the call): the reader would block until more input arrives", calls, from, fake.reads))
		}
		if fake.readAfterTimeout {
			fail("read-after-timeout", fmt.Sprintf("call %d starting at byte %d kept reading after a read had timed out (%d timeouts in one call)", calls, from, fake.timeouts))
		}
		if ev == nil && err == nil {
			fail("no-event-no-error", fmt.Sprintf("call %d starting at byte %d returned neither an event nor an error", calls, from))
		}
		if err != nil && !IsReadErrorRecoverable(err) {
			fail("fatal-error-from-stream", fmt.Sprintf("call %d starting at byte %d returned the non-recoverable error %v; the application stops reading input on it", calls, from, err))
		}
		if atEnd {
			if err == nil {
				fail("event-from-nothing", fmt.Sprintf("call %d at the end of the stream (no byte available) returned event %v without error", calls, ev))
			}
			res.class = append(res.class, '$')
			res.class = c31Kind(res.class, ev, err)
			return
		}
		if fake.pos == from && err == nil {
			fail("no-progress", fmt.Sprintf("call %d starting at byte %d consumed nothing and returned event %v without error", calls, from, ev))
			return
		}
		res.outs = append(res.outs, c31Outcome{from, fake.pos, ev, err})
		res.class = c31Kind(res.class, ev, err)
		if calls > len(data) {
			fail("more-outcomes-than-bytes", fmt.Sprintf("%d calls returned while only %d of %d bytes were consumed", calls, fake.pos, len(data)))
			return
		}
	}
}

func c31Mask(mask uint32, n int) string {
	s := "{"
	for k := 0; k < n; k++ {
		if mask&(1<<uint(k)) != 0 {
			if len(s) > 1 {
				s += ","
			}
			s += fmt.Sprint(k)
		}
	}
	return s + "}"
}

// c31Kind appends a short code of the behaviour class of one outcome.
func c31Kind(b []byte, ev Event, err error) []byte {
	if err != nil {
		if se, ok := err.(seqError); ok {
			b = append(b, 'e', ':')
			b = append(b, se.msg...)
			return append(b, ' ')
		}
		if err == errTimeout {
			return append(b, 't', ' ')
		}
		return append(b, '?', ' ')
	}
	switch ev := ev.(type) {
	case KeyEvent:
		b = append(b, 'k', '0'+byte(ev.Mod))
		switch {
		case ev.Rune < 0:
			b = append(b, 'F')
		case ev.Rune == 0:
			b = append(b, '0')
		case ev.Rune < 0x20 || ev.Rune == 0x7f:
			b = append(b, 'c')
		case ev.Rune < 0x80:
			b = append(b, 'a')
		default:
			b = append(b, 'u')
		}
	case MouseEvent:
		b = append(b, 'm')
		if ev.Down {
			b = append(b, 'd')
		}
	case CursorPosition:
		b = append(b, 'c', 'p', 'r')
	case PasteSetting:
		b = append(b, 'p')
	default:
		b = append(b, '#')
	}
	return append(b, ' ')
}

// c31Plain is the documentation-level model of plain text: the stream is valid
// UTF-8 and contains no control character (C0, DEL, C1) – so in particular no
// ESC. It returns the characters, decoded with the standard library.
func c31Plain(data []byte) ([]rune, bool) {
	if len(data) == 0 || !utf8.Valid(data) {
		return nil, false
	}
	var rs []rune
	for _, r := range string(data) {
		if unicode.IsControl(r) {
			return nil, false
		}
		rs = append(rs, r)
	}
	return rs, true
}

// c31PauseInsideRune reports whether the mask pauses before a UTF-8
// continuation byte (the documentation says nothing about characters whose
// bytes arrive more than the timeout apart, so such runs are not judged for
// exact decoding).
func c31PauseInsideRune(data []byte, mask uint32) bool {
	for k := range data {
		if mask&(1<<uint(k)) != 0 && !utf8.RuneStart(data[k]) {
			return true
		}
	}
	return false
}

// c31CheckPlain demands exactly one unmodified key event per character, in
// order, each consuming exactly the bytes of its character.
func c31CheckPlain(res *c31Result, data []byte, mask uint32, want []rune) {
	if res.key != "" {
		return
	}
	fail := func(key, msg string) {
		res.key = "plain-text-" + key
		res.msg = fmt.Sprintf("plain text %q (characters %U) pauses-before-bytes %s: %s", data, want, c31Mask(mask, len(data)), msg)
	}
	off := 0
	for i, r := range want {
		if i >= len(res.outs) {
			fail("lost-character", fmt.Sprintf("only %d outcomes for %d characters", len(res.outs), len(want)))
			return
		}
		o := res.outs[i]
		if o.err != nil {
			fail("error", fmt.Sprintf("character %d (%U) produced error %v instead of a key event", i, r, o.err))
			return
		}
		ke, ok := o.ev.(KeyEvent)
		if !ok || ke.Rune != r || ke.Mod != 0 {
			fail("wrong-key", fmt.Sprintf("character %d (%U) produced %#v, want KeyEvent{Rune:%U, Mod:0}", i, r, o.ev, r))
			return
		}
		if o.from != off || o.to != off+utf8.RuneLen(r) {
			fail("wrong-extent", fmt.Sprintf("character %d (%U) consumed bytes [%d,%d), its encoding is [%d,%d)", i, r, o.from, o.to, off, off+utf8.RuneLen(r)))
			return
		}
		off += utf8.RuneLen(r)
	}
	if len(res.outs) != len(want) {
		fail("extra-outcome", fmt.Sprintf("%d outcomes for %d characters", len(res.outs), len(want)))
	}
}

func TestVerifC31(t *testing.T) {
	vk.Run(t, "C31", "exploration", func(c *vk.Ctx) {
		nb := vk.Pick(c, 5, 6)
		nr := vk.Pick(c, 4, 5)
		c.Rule(fmt.Sprintf("(1) every byte stream of <=%d symbols over the %d-symbol alphabet %q, each with every set of pauses (longer than the reader's timeout) before bytes 1..len-1 (streams longer than %d bytes: every set of at most 2 pauses), length-lexicographic; "+
			"(2) every Unicode scalar value U+0020..U+10FFFF as a one-character stream, with no pause and with a pause before each continuation byte; "+
			"(3) every string of <=%d characters over the %d-character set %U with every set of pauses at character boundaries. "+
			"(4) every text of <=3 characters over %U through the REAL bReader on a pipe, for every split of its bytes into separately arriving writes, fault-free and with select(2) interrupted (EINTR) at every choice of <=%d of the reader's wait calls; "+
			"class = sequence of outcome kinds of the successive ReadEvent calls (key event with modifier bits and rune category / mouse / cursor report / paste / error message / timeout) and, in parts 2-3, (encoding length, judged or not)",
			nb, len(c31Alphabet), c31Alphabet, c31AllPausesLen, nr, len(c31Runes), c31Runes, c31RealRunes, vk.Pick(c, 1, 2)))
		c.Assume("the terminal is modelled by a fake byteReaderWithTimeout/fileReader: a read without timeout returns the next byte whenever one will arrive, a read with timeout times out iff the next byte is preceded by a pause or the stream is over; eunix.WaitForRead and the real file descriptor are not exercised",
			"'cannot block past its timeout' is checked as: within one ReadEvent call only the first read may be issued without timeout, and once a read has timed out the call issues no further read",
			"plain text = valid UTF-8 without control characters (C0, DEL, C1); exact decoding is judged for graphic and format characters only, and not when a pause falls inside one character's bytes (documentation is silent there)",
			"what a given escape sequence decodes to is not judged (not part of the property)",
			"part 4 runs the real bReader over an os.Pipe; its eunix.WaitForRead call goes through a hook (build-time call replacement) that delivers the next write when the pipe is empty, forwards to the real select(2) only when data is present (so nothing depends on the clock), and answers EINTR at chosen calls; real signal delivery is not exercised")

		addCounts := func(nj, jp int64) {
			if nj != 0 {
				c.Add("not_judged_pause_inside_character", nj)
			}
			if jp != 0 {
				c.Add("plain_text_runs_judged", jp)
			}
		}

		// Part 1: byte streams over the escape-sequence alphabet.
		c.EnumSeqs(len(c31Alphabet), nb, func(l *vk.Local, idx []int) {
			data := []byte(vk.Join(c31Alphabet, idx))
			want, plain := c31Plain(data)
			var res c31Result
			var nj, jp int64
			nmask := uint32(1)
			if len(data) > 1 {
				nmask = 1 << uint(len(data)-1)
			}
			for m := uint32(0); m < nmask; m++ {
				if len(data) > c31AllPausesLen && bits.OnesCount32(m) > 2 {
					continue
				}
				mask := m << 1 // never a pause before byte 0: the first read has no timeout
				c31Drive(&res, data, mask)
				if plain {
					if c31PauseInsideRune(data, mask) {
						nj++
					} else {
						jp++
						c31CheckPlain(&res, data, mask, want)
					}
				}
				if res.key != "" {
					c.Violate(res.key, res.msg, map[string]any{"stream": fmt.Sprintf("%q", data), "pause_mask": mask})
				}
				if mask != 0 {
					res.class = append(res.class, '/', 'p')
				}
				l.Case(string(res.class))
			}
			addCounts(nj, jp)
			if len(idx) == nb && idx[0] == 0 && idx[1] == 1 && idx[nb-1] == 11 && idx[2] == 7 {
				c.Sample(fmt.Sprintf("%q", data))
			}
		})

		// Part 2: every scalar value on its own.
		const chunk = 0x400
		c.Parallel(0x110000/chunk, func(l *vk.Local, i int) {
			var res c31Result
			var nj, jp int64
			var buf [4]byte
			for r := rune(i * chunk); r < rune((i+1)*chunk); r++ {
				if r < 0x20 || (r >= 0xd800 && r < 0xe000) {
					continue
				}
				n := utf8.EncodeRune(buf[:], r)
				data := buf[:n]
				judged := !unicode.IsControl(r) && (unicode.IsGraphic(r) || unicode.Is(unicode.Cf, r))
				cls := fmt.Sprintf("scalar/len%d/judged=%v", n, judged)
				c31Drive(&res, data, 0)
				if judged {
					jp++
					c31CheckPlain(&res, data, 0, []rune{r})
				}
				if res.key != "" {
					c.Violate(res.key, res.msg, map[string]any{"stream": fmt.Sprintf("%q", data), "pause_mask": 0})
				}
				l.Case(cls)
				for k := 1; k < n; k++ {
					c31Drive(&res, data, 1<<uint(k))
					nj++
					if res.key != "" {
						c.Violate(res.key, res.msg, map[string]any{"stream": fmt.Sprintf("%q", data), "pause_mask": 1 << uint(k)})
					}
					l.Case(fmt.Sprintf("scalar/len%d/pause-inside@%d/%s", n, k, res.class))
				}
			}
			addCounts(nj, jp)
		})

		// Part 3: strings over the rune set with pauses at character boundaries.
		c.EnumSeqs(len(c31Runes), nr, func(l *vk.Local, idx []int) {
			if len(idx) == 0 {
				l.Case("")
				return
			}
			want := make([]rune, len(idx))
			var data []byte
			var bounds []int // byte offsets of characters 1..n-1
			lens := make([]byte, 0, 8)
			for i, j := range idx {
				want[i] = c31Runes[j]
				if i > 0 {
					bounds = append(bounds, len(data))
				}
				data = utf8.AppendRune(data, c31Runes[j])
				lens = append(lens, '0'+byte(utf8.RuneLen(c31Runes[j])))
			}
			var res c31Result
			for m := 0; m < 1<<uint(len(bounds)); m++ {
				var mask uint32
				for b, off := range bounds {
					if m&(1<<uint(b)) != 0 {
						mask |= 1 << uint(off)
					}
				}
				c31Drive(&res, data, mask)
				c31CheckPlain(&res, data, mask, want)
				if res.key != "" {
					c.Violate(res.key, res.msg, map[string]any{"stream": fmt.Sprintf("%q", data), "pause_mask": mask})
				}
				l.Case(fmt.Sprintf("text/lens=%s/pauses=%b", lens, m))
			}
			addCounts(0, int64(1)<<uint(len(bounds)))
			if len(idx) == nr && idx[0] == 9 && idx[1] == 12 && idx[nr-1] == 14 {
				c.Sample(string(data))
			}
		})
		c31RealReaderPart(c)
		c.Set("bounds", map[string]any{"stream_len": nb, "alphabet": len(c31Alphabet), "text_len": nr, "rune_set": len(c31Runes),
			"real_reader_text_len": 3, "real_reader_rune_set": len(c31RealRunes), "eintr_faults": vk.Pick(c, 1, 2)})
	})
}

// ---- Part 4: the real bReader over a pipe, with interrupted waits ----

// Characters of every UTF-8 encoding length (and '[', structural in escape
// sequences but plain on its own).
var c31RealRunes = []rune{'a', '[', 'é', '好', '𐌰'}

// c31Env is the environment of one run of the real reader: the writes that have
// not arrived yet and the wait calls to interrupt.
type c31Env struct {
	w       *os.File
	chunks  [][]byte
	next    int
	calls   int
	eintrAt [2]int // 1-based numbers of the wait calls answered with EINTR (0: none)
	starved bool   // a wait was issued when no byte was left to arrive
}

var c31Envs sync.Map // read end of the pipe (*os.File) -> *c31Env
var c31HookCalls int64
var c31HookMu sync.Mutex

func c31Pending(f *os.File) int {
	n, err := unix.IoctlGetInt(int(f.Fd()), unix.TIOCINQ) // FIONREAD
	if err != nil {
		panic(fmt.Sprintf("c31: FIONREAD: %v", err))
	}
	return n
}

// c31WaitHook stands where bReader calls eunix.WaitForRead.
func c31WaitHook(timeout time.Duration, files ...*os.File) ([]bool, error) {
	v, ok := c31Envs.Load(files[0])
	if !ok {
		return eunix.WaitForRead(timeout, files...)
	}
	e := v.(*c31Env)
	e.calls++
	if e.calls == e.eintrAt[0] || e.calls == e.eintrAt[1] {
		// A signal interrupts select(2) before anything is reported ready.
		return make([]bool, len(files)), syscall.EINTR
	}
	if c31Pending(files[0]) == 0 {
		if e.next >= len(e.chunks) {
			e.starved = true
			return make([]bool, len(files)), nil // nothing will arrive: timed out
		}
		// The next write arrives while the reader waits.
		if _, err := e.w.Write(e.chunks[e.next]); err != nil {
			panic(fmt.Sprintf("c31: pipe write: %v", err))
		}
		e.next++
	}
	return eunix.WaitForRead(timeout, files...)
}

type c31RealOut struct {
	ev  Event
	err error
}

// c31RealRun decodes one text, arriving as the given chunks, with the real
// reader and returns the outcomes of the successive ReadEvent calls.
func c31RealRun(chunks [][]byte, total int, eintrAt [2]int) (outs []c31RealOut, calls int, problem string) {
	r, w, err := os.Pipe()
	if err != nil {
		panic(err)
	}
	defer r.Close()
	defer w.Close()
	fr, err := newFileReader(r)
	if err != nil {
		panic(err)
	}
	defer fr.Close()
	env := &c31Env{w: w, chunks: chunks, eintrAt: eintrAt}
	c31Envs.Store(r, env)
	defer c31Envs.Delete(r)
	rd := &reader{fr: fr}
	for n := 0; ; n++ {
		if env.next >= len(chunks) && c31Pending(r) == 0 {
			break // everything consumed
		}
		if n > 2*total+4 {
			return outs, env.calls, fmt.Sprintf("more than %d ReadEvent calls for %d bytes", n, total)
		}
		var ev Event
		var err error
		if p := vk.Try(func() { ev, err = rd.ReadEvent() }); p != "" {
			return outs, env.calls, "panic: " + p
		}
		outs = append(outs, c31RealOut{ev, err})
	}
	return outs, env.calls, ""
}

func c31RealDescribe(outs []c31RealOut) string {
	s := "["
	for i, o := range outs {
		if i > 0 {
			s += " "
		}
		if o.err != nil {
			s += fmt.Sprintf("error(%v)", o.err)
		} else if k, ok := o.ev.(KeyEvent); ok && k.Mod == 0 && k.Rune >= 0x20 {
			s += fmt.Sprintf("key(%U)", k.Rune)
		} else {
			s += fmt.Sprintf("%#v", o.ev)
		}
	}
	return s + "]"
}

func c31RealReaderPart(c *vk.Ctx) {
	// The call replacement must be in place, otherwise nothing would ever be written to the pipes.
	vsched.Hooks["waitforread"] = func(timeout time.Duration, files ...*os.File) ([]bool, error) {
		c31HookMu.Lock()
		c31HookCalls++
		c31HookMu.Unlock()
		return c31WaitHook(timeout, files...)
	}
	{
		r, w, _ := os.Pipe()
		w.Write([]byte{'x'})
		fr, _ := newFileReader(r)
		b, err := fr.ReadByteWithTimeout(0)
		fr.Close()
		r.Close()
		w.Close()
		if c31HookCalls == 0 || b != 'x' || err != nil {
			panic(fmt.Sprintf("C31 part 4: bReader does not reach the waitforread hook (hook calls %d, byte %q, err %v): the rewrite section of checks/C31.json was not applied to file_reader_unix.go", c31HookCalls, b, err))
		}
	}
	faults := vk.Pick(c, 1, 2)
	// all texts of 1..3 characters
	var texts [][]rune
	for n := 1; n <= 3; n++ {
		idx := make([]int, n)
		for {
			t := make([]rune, n)
			for i, j := range idx {
				t[i] = c31RealRunes[j]
			}
			texts = append(texts, t)
			i := n - 1
			for i >= 0 {
				idx[i]++
				if idx[i] < len(c31RealRunes) {
					break
				}
				idx[i] = 0
				i--
			}
			if i < 0 {
				break
			}
		}
	}
	c.Parallel(len(texts), func(l *vk.Local, ti int) {
		want := texts[ti]
		data := []byte(string(want))
		for split := 0; split < 1<<uint(len(data)-1); split++ {
			var chunks [][]byte
			from := 0
			for k := 1; k <= len(data); k++ {
				if k == len(data) || split&(1<<uint(k-1)) != 0 {
					chunks = append(chunks, data[from:k])
					from = k
				}
			}
			insideSplit := c31PauseInsideRune(data, uint32(split)<<1)
			where := fmt.Sprintf("text %q (characters %U) arriving as writes %q through the real bReader", data, want, chunks)
			base, n, problem := c31RealRun(chunks, len(data), [2]int{})
			cls := fmt.Sprintf("real/chars=%d/bytes=%d/writes=%d/split-inside-char=%v", len(want), len(data), len(chunks), insideSplit)
			l.Case(cls + "/fault-free")
			if problem != "" {
				c.Violate("real-reader-"+c31ProblemKey(problem), where+": "+problem, where)
				continue
			}
			ok := len(base) == len(want)
			for i := 0; ok && i < len(want); i++ {
				k, isKey := base[i].ev.(KeyEvent)
				ok = base[i].err == nil && isKey && k.Rune == want[i] && k.Mod == 0
			}
			if !ok {
				c.Violate("real-reader-plain-text", fmt.Sprintf("%s, no fault: got %s, want one unmodified key event per character", where, c31RealDescribe(base)), where)
				continue
			}
			check := func(at [2]int, limit int) {
				outs, _, problem := c31RealRun(chunks, len(data), at)
				l.Case(fmt.Sprintf("%s/eintr=%d", cls, limit))
				desc := fmt.Sprintf("%s, select(2) interrupted (EINTR) at wait call(s) %v of %d", where, at[:limit], n)
				if problem != "" {
					c.Violate("eintr-"+c31ProblemKey(problem), desc+": "+problem, desc)
					return
				}
				same := len(outs) == len(base)
				anyErr := false
				for i, o := range outs {
					if o.err != nil {
						anyErr = true
					}
					if same && (o.err != base[i].err || o.ev != base[i].ev) {
						same = false
					}
				}
				if anyErr {
					fatal := ""
					for _, o := range outs {
						if o.err != nil && !IsReadErrorRecoverable(o.err) {
							fatal = " (a non-recoverable error: the application stops reading input)"
						}
					}
					c.Violate("eintr-surfaced-as-error", fmt.Sprintf("%s: got %s%s, the uninterrupted run gives %s", desc, c31RealDescribe(outs), fatal, c31RealDescribe(base)), desc)
				} else if !same {
					c.Violate("eintr-changes-events", fmt.Sprintf("%s: got %s, the uninterrupted run gives %s", desc, c31RealDescribe(outs), c31RealDescribe(base)), desc)
				}
			}
			for k1 := 1; k1 <= n; k1++ {
				check([2]int{k1, 0}, 1)
				if faults >= 2 {
					for k2 := k1 + 1; k2 <= n+1; k2++ {
						check([2]int{k1, k2}, 2)
					}
				}
			}
		}
	})
}

func c31ProblemKey(problem string) string {
	if len(problem) >= 5 && problem[:5] == "panic" {
		return "panic"
	}
	return "too-many-calls"
}
