//go:build verif

package cli

import (
	"fmt"
	"strings"
	"testing"

	"src.elv.sh/pkg/zzverif/vk"
	"src.elv.sh/pkg/zzverif/vsched"
)

// c32Scenario is one closed world around the real event loop.
type c32Scenario struct {
	name string
	body func()
}

func c32Scenarios() []c32Scenario {
	mk := func(actors ...func(lp *loop)) func() {
		return func() {
			lp := newLoop()
			lp.HandleCb(func(e event) {
				vsched.Logf("handle:%v", e)
				if e == "e2!" {
					lp.Return("y", nil)
					vsched.Logf("return-call:y")
				}
				vsched.Point("in-handler")
				vsched.Logf("cb-end")
			})
			lp.RedrawCb(func(f redrawFlag) {
				vsched.Logf("redraw:%d", f)
				vsched.Point("in-redraw")
				vsched.Logf("cb-end")
			})
			for _, a := range actors {
				a := a
				vsched.Go(func() { a(lp) })
			}
			buf, _ := lp.Run()
			vsched.Logf("run-returned:%s", buf)
		}
	}
	input := func(evs ...string) func(lp *loop) {
		return func(lp *loop) {
			for _, e := range evs {
				vsched.Logf("input-start:%s", e)
				lp.Input(e)
				vsched.Logf("input-done:%s", e)
			}
		}
	}
	redraw := func(full bool) func(lp *loop) {
		return func(lp *loop) {
			lp.Redraw(full)
			vsched.Logf("redraw-req-done:%v", full)
		}
	}
	ret := func(x string) func(lp *loop) {
		return func(lp *loop) {
			lp.Return(x, nil)
			vsched.Logf("return-call:%s", x)
		}
	}
	redrawThenRet := func(full bool, x string) func(lp *loop) {
		return func(lp *loop) {
			lp.Redraw(full)
			vsched.Logf("redraw-req-done:%v", full)
			lp.Return(x, nil)
			vsched.Logf("return-call:%s", x)
		}
	}
	// quiesceThenRet waits until nothing else can run (every request has been fully
	// processed and the loop is idle), records that, and only then asks the loop to
	// return: a redraw request must have been served by then on its own, without the
	// help of a later event.
	quiesceThenRet := func(x string) func(lp *loop) {
		return func(lp *loop) {
			vsched.Sleep(1 << 30)
			vsched.Logf("quiescent")
			lp.Return(x, nil)
			vsched.Logf("return-call:%s", x)
		}
	}
	return []c32Scenario{
		{"partial+full-then-idle", mk(redraw(false), redraw(true), quiesceThenRet("x"))},
		{"full+input-then-idle", mk(redraw(true), input("e1"), quiesceThenRet("x"))},
		{"two-full-then-idle", mk(redraw(true), redraw(true), quiesceThenRet("x"))},
		{"inputs+full+ret", mk(input("e1", "e2"), redraw(true), ret("x"))},
		{"inputs-handler-returns+partial", mk(input("e1", "e2!"), redraw(false))},
		{"two-producers+full", mk(input("e1", "e2!"), input("f1"), redraw(true))},
		{"full+partial+ret", mk(redraw(true), redraw(false), ret("x"))},
		{"full-then-ret+input", mk(redrawThenRet(true, "x"), input("e1"))},
		{"two-full+two-ret", mk(redrawThenRet(true, "x"), redrawThenRet(true, "z"), input("e1", "e2!"))},
	}
}

// c32Oracle checks R1-R5 on one complete log; returns (key, message) of the first violated rule.
func c32Oracle(r *vsched.Result) (string, string) {
	if r.Deadlock {
		return "deadlock", fmt.Sprintf("deadlock; blocked: %v", r.Blocked)
	}
	if r.Horizon {
		return "horizon", "step horizon exceeded (livelock candidate)"
	}
	if r.Panics > 0 {
		return "panic", "a goroutine panicked"
	}
	log := r.Log
	var sent, handled []string
	finalAt, returnedAt := -1, -1
	firstRet, ran := "", ""
	finals := 0
	for i, l := range log {
		switch {
		case strings.HasPrefix(l, "input-done:"):
			sent = append(sent, l[len("input-done:"):])
		case strings.HasPrefix(l, "handle:"):
			handled = append(handled, l[len("handle:"):])
			if finalAt >= 0 {
				return "R4-callback-after-final", "handle callback after the final redraw"
			}
		case strings.HasPrefix(l, "redraw:"):
			if finalAt >= 0 {
				return "R4-callback-after-final", "redraw callback after the final redraw"
			}
			if l == fmt.Sprintf("redraw:%d", finalRedraw) || l == fmt.Sprintf("redraw:%d", finalRedraw|fullRedraw) {
				finals++
				finalAt = i
			}
		case strings.HasPrefix(l, "return-call:"):
			if firstRet == "" {
				firstRet = l[len("return-call:"):]
			}
		case strings.HasPrefix(l, "run-returned:"):
			returnedAt = i
			ran = l[len("run-returned:"):]
		}
	}
	if returnedAt < 0 {
		return "no-return", "Run never returned"
	}
	if finals != 1 || finalAt > returnedAt {
		return "R4-final-redraw-count", fmt.Sprintf("%d final redraws", finals)
	}
	if ran != firstRet {
		return "R5-wrong-result", fmt.Sprintf("Run returned %q, first committed Return was %q", ran, firstRet)
	}
	// R1: serial handling in arrival order. Callbacks never overlap (start/end entries nest flat);
	// no event is handled twice; events of one producer are handled in the order sent; and if the
	// send of a completed before the send of b began, a is handled before b.
	open := ""
	for _, l := range log {
		switch {
		case strings.HasPrefix(l, "handle:"), strings.HasPrefix(l, "redraw:"):
			if open != "" {
				return "R1-overlap", fmt.Sprintf("callback %s started while %s was running", l, open)
			}
			open = l
		case strings.HasPrefix(l, "cb-end"):
			open = ""
		}
	}
	hpos, spos, dpos := map[string]int{}, map[string]int{}, map[string]int{}
	for i, l := range log {
		switch {
		case strings.HasPrefix(l, "handle:"):
			e := l[len("handle:"):]
			if _, dup := hpos[e]; dup {
				return "R1-duplicate", "event " + e + " handled twice"
			}
			hpos[e] = i
		case strings.HasPrefix(l, "input-start:"):
			spos[l[len("input-start:"):]] = i
		case strings.HasPrefix(l, "input-done:"):
			dpos[l[len("input-done:"):]] = i
		}
	}
	for a, da := range dpos {
		for b, sb := range spos {
			if da < sb { // a was in the channel before b was sent
				ha, oka := hpos[a]
				hb, okb := hpos[b]
				if okb && (!oka || ha > hb) {
					return "R1-order", fmt.Sprintf("event %s was sent before %s but %s was handled first (or %s never)", a, b, b, a)
				}
			}
		}
	}
	_, _ = sent, handled
	// R2'/R3' (idle loop): a request completed before the system went quiescent must have been
	// served before that point: a redraw started after it, and for a full request a full redraw.
	quiet := -1
	for i, l := range log {
		if l == "quiescent" {
			quiet = i
		}
	}
	if quiet >= 0 {
		for i, l := range log[:quiet] {
			if !strings.HasPrefix(l, "redraw-req-done:") {
				continue
			}
			any, full := false, false
			for j := i + 1; j < quiet; j++ {
				if strings.HasPrefix(log[j], "redraw:") {
					any = true
					var f redrawFlag
					fmt.Sscanf(log[j], "redraw:%d", &f)
					if f&fullRedraw != 0 {
						full = true
					}
				}
			}
			if !any {
				return "R2-lost-redraw", fmt.Sprintf("redraw request completed at %d; the loop went idle at %d without starting a redraw after it", i, quiet)
			}
			if l == "redraw-req-done:true" && !full {
				return "R3-full-downgraded", fmt.Sprintf("full redraw request completed at %d; the loop went idle at %d having done only partial redraws", i, quiet)
			}
		}
	}
	// R2/R3
	for i, l := range log {
		if !strings.HasPrefix(l, "redraw-req-done:") || i > finalAt {
			continue
		}
		full := l == "redraw-req-done:true"
		okAny, okFull := false, false
		for j := i + 1; j < len(log); j++ {
			if strings.HasPrefix(log[j], "redraw:") {
				okAny = true
				var f redrawFlag
				fmt.Sscanf(log[j], "redraw:%d", &f)
				if f&fullRedraw != 0 {
					okFull = true
				}
			}
		}
		if !okAny {
			return "R2-lost-redraw", fmt.Sprintf("redraw request completed at %d but no redraw started after it", i)
		}
		if full && !okFull {
			// allowed only if the loop returned (final redraw) before any non-final redraw could carry it:
			// i.e. every redraw after i is the final one.
			nonFinalAfter := false
			for j := i + 1; j < len(log); j++ {
				if strings.HasPrefix(log[j], "redraw:") && j != finalAt {
					nonFinalAfter = true
				}
			}
			if nonFinalAfter {
				// a non-final redraw after the request without the full flag is legitimate only if the loop
				// had already extracted the flag before the request; then a later redraw must carry it,
				// unless the loop returned first.
				lastNonFinal := -1
				for j := i + 1; j < finalAt; j++ {
					if strings.HasPrefix(log[j], "redraw:") {
						lastNonFinal = j
					}
				}
				cnt := 0
				for j := i + 1; j <= lastNonFinal; j++ {
					if strings.HasPrefix(log[j], "redraw:") {
						cnt++
					}
				}
				if cnt >= 2 {
					return "R3-full-downgraded", fmt.Sprintf("full redraw requested at %d, %d later non-final redraws, none full", i, cnt)
				}
			}
		}
	}
	return "", ""
}

func TestVerifC32(t *testing.T) {
	vk.Run(t, "C32", "exploration", func(c *vk.Ctx) {
		bound := vk.Pick(c, 2, 3)
		c.Rule(fmt.Sprintf("every schedule (at synchronisation granularity: mutex, channel send/recv, select incl. tie-breaks) of 9 closed scenarios (three of which let the loop go idle before asking it to return) around the real cli.loop with <=%d preemptions, stateless DFS; class = distinct complete observation log", bound))
		c.Assume("loop.go is rewritten so that its sync/channel operations go through the controlled scheduler; memory-model effects below that granularity are not explored")
		var total, maxPts int64
		for _, sc := range c32Scenarios() {
			sc := sc
			logs := map[string]bool{}
			x := &vsched.Explorer{Bound: bound, MaxPoints: 2000, Body: sc.body, Stop: c.TimeUp}
			x.Check = func(r *vsched.Result) {
				key := strings.Join(r.Log, "|")
				logs[key] = true
				c.Case(sc.name + ":" + key)
				if k, m := c32Oracle(r); k != "" {
					same, _ := vsched.Replay(r.Choices, 2000, sc.body, 5)
					if !same {
						fmt.Printf("HARNESS-ERROR property=C32 schedule %v of %s does not replay deterministically\n", r.Choices, sc.name)
						return
					}
					c.Violate(k, fmt.Sprintf("scenario %s schedule %v: %s; log %v", sc.name, r.Choices, m, r.Log),
						map[string]any{"scenario": sc.name, "choices": r.Choices, "log": r.Log})
				}
			}
			x.Explore(nil)
			if x.Diverged != "" {
				fmt.Printf("HARNESS-ERROR property=C32 %s\n", x.Diverged)
				t.FailNow()
			}
			if x.Capped {
				c.Capped("time budget reached in scenario " + sc.name)
			}
			total += x.Executions
			if int64(x.MaxPts) > maxPts {
				maxPts = int64(x.MaxPts)
			}
			c.Set("scenario_"+sc.name, map[string]any{"schedules": x.Executions, "distinct_logs": len(logs), "max_points": x.MaxPts, "goroutines": x.MaxG, "deadlocks": x.Deadlocks})
			if len(logs) > 0 {
				for k := range logs {
					c.Sample(map[string]any{"scenario": sc.name, "log": k})
					break
				}
			}
		}
		c.Set("preemption_bound_completed", bound)
		c.Set("schedules", total)
		c.Set("points_max", maxPts)
	})
}
