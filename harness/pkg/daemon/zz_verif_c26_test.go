//go:build verif

package daemon

import (
	"fmt"
	"net"
	"os"
	"path/filepath"
	"sort"
	"strings"
	"testing"

	bolt "go.etcd.io/bbolt"
	"src.elv.sh/pkg/daemon/internal/api"
	"src.elv.sh/pkg/rpc"
	"src.elv.sh/pkg/store"
	"src.elv.sh/pkg/store/storedefs"
	"src.elv.sh/pkg/zzverif/vk"
	"src.elv.sh/pkg/zzverif/vsched"
	"src.elv.sh/pkg/zzverif/vshard"
)

// ---- operations and the sequential model ----

type c26Op struct {
	kind string // add, del, next, list, prev
	text string
	seq  int
}

func (o c26Op) String() string {
	switch o.kind {
	case "add":
		return "AddCmd(" + o.text + ")"
	case "del":
		return fmt.Sprintf("DelCmd(%d)", o.seq)
	case "next":
		return "NextCmdSeq"
	case "list":
		return "CmdsWithSeq(0,100)"
	}
	return "PrevCmd(100,'')"
}

type c26Model struct {
	next int
	cmds map[int]string
}

func c26NewModel(initial []string) *c26Model {
	m := &c26Model{next: 1, cmds: map[int]string{}}
	for _, t := range initial {
		m.apply(c26Op{kind: "add", text: t})
	}
	return m
}

func (m *c26Model) clone() *c26Model {
	n := &c26Model{next: m.next, cmds: map[int]string{}}
	for k, v := range m.cmds {
		n.cmds[k] = v
	}
	return n
}

func (m *c26Model) list() string {
	var seqs []int
	for s := range m.cmds {
		seqs = append(seqs, s)
	}
	sort.Ints(seqs)
	var parts []string
	for _, s := range seqs {
		parts = append(parts, fmt.Sprintf("%d:%s", s, m.cmds[s]))
	}
	return "[" + strings.Join(parts, ",") + "]"
}

// apply performs op on the model and returns the observation a client would see.
func (m *c26Model) apply(o c26Op) string {
	switch o.kind {
	case "add":
		s := m.next
		m.next++
		m.cmds[s] = o.text
		return fmt.Sprintf("%d", s)
	case "del":
		delete(m.cmds, o.seq)
		return "ok"
	case "next":
		return fmt.Sprintf("%d", m.next)
	case "list":
		return m.list()
	default: // prev
		best := -1
		for s := range m.cmds {
			if s < 100 && s > best {
				best = s
			}
		}
		if best < 0 {
			return "none"
		}
		return fmt.Sprintf("%d:%s", best, m.cmds[best])
	}
}

func c26Do(c *client, o c26Op) string {
	switch o.kind {
	case "add":
		s, err := c.AddCmd(o.text)
		if err != nil {
			return "err:" + err.Error()
		}
		return fmt.Sprintf("%d", s)
	case "del":
		if err := c.DelCmd(o.seq); err != nil {
			return "err:" + err.Error()
		}
		return "ok"
	case "next":
		s, err := c.NextCmdSeq()
		if err != nil {
			return "err:" + err.Error()
		}
		return fmt.Sprintf("%d", s)
	case "list":
		cmds, err := c.CmdsWithSeq(0, 100)
		if err != nil {
			return "err:" + err.Error()
		}
		return c26List(cmds)
	default:
		cmd, err := c.PrevCmd(100, "")
		if err != nil {
			if err.Error() == storedefs.ErrNoMatchingCmd.Error() {
				return "none"
			}
			return "err:" + err.Error()
		}
		return fmt.Sprintf("%d:%s", cmd.Seq, cmd.Text)
	}
}

func c26List(cmds []storedefs.Cmd) string {
	var parts []string
	for _, c := range cmds {
		parts = append(parts, fmt.Sprintf("%d:%s", c.Seq, c.Text))
	}
	return "[" + strings.Join(parts, ",") + "]"
}

// ---- scenarios ----

type c26Scen struct {
	name    string
	initial []string
	// clients[i] is the op list of client i; shared means all lists are run by
	// goroutines sharing ONE client (after a first successful Version call).
	clients [][]c26Op
	shared  bool
	// connLoss adds a fault actor that severs the first connection at a point chosen by the
	// scheduler (any point after it exists): a call in flight then fails or is retried.
	connLoss bool
	// lateFault makes the fault actor a low-priority goroutine: by default the fault happens only when nothing else can
	// run, and a fault at any given point costs exactly one deviation
	lateFault bool
}

func c26Scens() []c26Scen {
	add := func(t string) c26Op { return c26Op{kind: "add", text: t} }
	del := func(s int) c26Op { return c26Op{kind: "del", seq: s} }
	next, list, prev := c26Op{kind: "next"}, c26Op{kind: "list"}, c26Op{kind: "prev"}
	return []c26Scen{
		{"2x2-add-list-add-next", nil, [][]c26Op{{add("a"), list}, {add("b"), next}}, false, false, false},
		{"3x1-add-add-del", []string{"z"}, [][]c26Op{{add("a")}, {add("b")}, {del(1)}}, false, false, false},
		{"shared-client-2-adds", nil, [][]c26Op{{add("a")}, {add("b")}}, true, false, false},
		{"2x2-add-del-prev-list", []string{"z"}, [][]c26Op{{add("a"), del(1)}, {prev, list}}, false, false, false},
		{"2x2-adds", nil, [][]c26Op{{add("a"), add("b")}, {add("c"), add("d")}}, false, false, false},
		// a reader that first asks for the next sequence number and then lists: an add that is only half visible
		// (number taken, command not stored yet) is not linearizable
		{"add-vs-next-then-list", nil, [][]c26Op{{add("a")}, {next, list}}, false, false, false},
		{"add-vs-list-then-next", nil, [][]c26Op{{add("a")}, {list, next}}, false, false, false},
		{"2-adds-vs-next-list-prev", []string{"z"}, [][]c26Op{{add("a"), add("b")}, {next, list, prev}}, false, false, false},
		{"connection-lost-during-adds", nil, [][]c26Op{{add("a"), add("b")}, {add("c")}}, false, true, false},
		{"connection-lost-add-then-list", nil, [][]c26Op{{add("a"), list}, {next}}, false, true, false},
	}
}

var c26Counter int

type c26Event struct {
	client, idx int
	op          c26Op
	call, ret   int
	obs         string
}

func c26Body(sc c26Scen) func() {
	return func() {
		c26Counter++
		path := filepath.Join(os.Getenv("VERIF_SCRATCH"), fmt.Sprintf("c26-%d-%d.db", os.Getpid(), c26Counter))
		defer os.Remove(path)
		db, err := bolt.Open(path, 0o644, &bolt.Options{NoSync: true, NoFreelistSync: true})
		if err != nil {
			panic(err)
		}
		st, err := store.NewStoreFromDB(db)
		if err != nil {
			panic(err)
		}
		for _, t := range sc.initial {
			st.AddCmd(t)
		}
		server := rpc.NewServer()
		server.RegisterName(api.ServiceName, &service{api.Version, st, nil})
		var serverConns []net.Conn
		served := 0 // connections whose ServeConn has returned (it returns after its pending handlers have finished)
		vsched.DialHook = func(network, addr string) (net.Conn, error) {
			c1, c2 := vsched.Pipe()
			serverConns = append(serverConns, c2)
			vsched.Go(func() { server.ServeConn(c2); served++ })
			return c1, nil
		}
		if sc.connLoss {
			spawn := vsched.Go
			if sc.lateFault {
				spawn = vsched.GoLow
			}
			spawn(func() {
				vsched.WaitUntil("first-connection-exists", func() bool { return len(serverConns) > 0 })
				serverConns[0].Close()
				vsched.Logf("fault: first connection severed")
			})
		}
		clock := 0
		var events []*c26Event
		done := 0
		var clients []*client
		run := func(ci int, c *client, ops []c26Op) {
			for i, o := range ops {
				ev := &c26Event{client: ci, idx: i, op: o, call: clock}
				clock++
				events = append(events, ev)
				ev.obs = c26Do(c, o)
				ev.ret = clock
				clock++
			}
			done++
		}
		if sc.shared {
			c := NewClient("sock").(*client)
			if _, err := c.Version(); err != nil {
				panic(err)
			}
			clients = append(clients, c)
			for ci, ops := range sc.clients {
				ci, ops := ci, ops
				vsched.Go(func() { run(ci, c, ops) })
			}
		} else {
			for ci, ops := range sc.clients {
				ci, ops := ci, ops
				c := NewClient("sock").(*client)
				clients = append(clients, c)
				vsched.Go(func() { run(ci, c, ops) })
			}
		}
		vsched.WaitUntil("clients-done", func() bool { return done == len(sc.clients) })
		for _, c := range clients {
			c.Close()
		}
		// a call that failed on a severed connection may still be executing in the daemon: the final state is read
		// once every connection has been served to the end
		vsched.WaitUntil("daemon-quiescent", func() bool { return served == len(serverConns) })
		final, _ := st.CmdsWithSeq(0, 100)
		nextSeq, _ := st.NextCmdSeq()
		st.Close()
		var parts []string
		for _, ev := range events {
			parts = append(parts, fmt.Sprintf("c%d.%d %s=%s @%d-%d", ev.client, ev.idx, ev.op, ev.obs, ev.call, ev.ret))
		}
		vsched.Logf("history %s", strings.Join(parts, " ; "))
		vsched.Logf("final %s next=%d", c26List(final), nextSeq)
	}
}

// c26Linearizable searches for a total order of the events that respects real
// time (ret < call) and per-client order and under which the sequential model
// yields every observation and the final state.
func c26Linearizable(sc c26Scen, log []string) (bool, string) {
	hist := strings.TrimPrefix(vsLastDaemon(log, "history "), "history ")
	final := strings.TrimPrefix(vsLastDaemon(log, "final "), "final ")
	type ev struct {
		op        c26Op
		obs       string
		call, ret int
	}
	var evs []ev
	opOf := map[string]c26Op{}
	for _, ops := range sc.clients {
		for _, o := range ops {
			opOf[o.String()] = o
		}
	}
	if hist != "" {
		for _, part := range strings.Split(hist, " ; ") {
			// "c0.1 AddCmd(a)=1 @0-3"
			// (an error text may contain spaces and '=': split at the last " @" and at the known operation text)
			at := strings.LastIndex(part, " @")
			mid := part[strings.Index(part, " ")+1 : at]
			var call, ret int
			if n, _ := fmt.Sscanf(part[at+1:], "@%d-%d", &call, &ret); n != 2 {
				panic("c26: cannot parse history event " + part)
			}
			found := false
			for text, o := range opOf {
				if strings.HasPrefix(mid, text+"=") {
					evs = append(evs, ev{o, mid[len(text)+1:], call, ret})
					found = true
				}
			}
			if !found {
				panic("c26: unknown operation in history event " + part)
			}
		}
	}
	n := len(evs)
	used := make([]bool, n)
	var rec func(m *c26Model, k int) bool
	rec = func(m *c26Model, k int) bool {
		if k == n {
			return fmt.Sprintf("%s next=%d", m.list(), m.next) == final
		}
		for i := 0; i < n; i++ {
			if used[i] {
				continue
			}
			// i may come next only if no unused event returned before i was called
			ok := true
			for j := 0; j < n; j++ {
				if !used[j] && j != i && evs[j].ret < evs[i].call {
					ok = false
				}
			}
			if !ok {
				continue
			}
			failed := strings.HasPrefix(evs[i].obs, "err:")
			m2 := m.clone()
			if got := m2.apply(evs[i].op); got != evs[i].obs && !failed {
				continue
			}
			used[i] = true
			// a call that returned an error (connection lost) may or may not have taken effect
			if rec(m2, k+1) || (failed && rec(m, k+1)) {
				used[i] = false
				return true
			}
			used[i] = false
		}
		return false
	}
	if rec(c26NewModel(sc.initial), 0) {
		return true, ""
	}
	return false, fmt.Sprintf("history {%s} final {%s}", hist, final)
}

func vsLastDaemon(log []string, prefix string) string {
	for i := len(log) - 1; i >= 0; i-- {
		if strings.HasPrefix(log[i], prefix) {
			return log[i]
		}
	}
	return ""
}

func c26Scenarios() []vshard.Scenario {
	var scs []vshard.Scenario
	all := c26Scens()
	for _, sc := range c26Scens() {
		if sc.connLoss {
			sc.name += "/late-fault"
			sc.lateFault = true
			all = append(all, sc)
		}
	}
	for _, sc := range all {
		sc := sc
		scs = append(scs, vshard.Scenario{Name: sc.name, Body: c26Body(sc), Oracle: func(r *vsched.Result) (string, string) {
			if r.Deadlock {
				return "deadlock", fmt.Sprintf("blocked: %v", r.Blocked)
			}
			if r.Panics > 0 {
				return "panic", fmt.Sprint(r.Log)
			}
			if !sc.connLoss {
				for _, l := range r.Log {
					if strings.Contains(l, "=err:") {
						return "operation-failed", l
					}
				}
			}
			if ok, why := c26Linearizable(sc, r.Log); !ok {
				return "not-linearizable", "no sequential order of the store model explains " + why
			}
			return "", ""
		}})
	}
	return scs
}

func TestVerifC26(t *testing.T) {
	cfg := vshard.Config{Delay: true, Bound: 2, MaxPoints: 20000}
	if os.Getenv("VERIF_TIER") == "thorough" {
		cfg.Bound = 3
	}
	if vshard.IsWorker() {
		vshard.Serve(c26Scenarios(), cfg)
		return
	}
	vk.Run(t, "C26", "exploration", func(c *vk.Ctx) {
		c.Rule(fmt.Sprintf("12 closed worlds (three with a reader that asks for the next sequence number and lists while another client adds; four with a fault actor that severs a connection at a scheduler-chosen point - as an ordinary goroutine and as a low-priority actor whose step costs exactly one deviation wherever it is placed; a call that then returns an error may or may not have taken effect, a call that returns success must have taken effect exactly once): the real rpc.Server + daemon service + bbolt store, 2-3 real daemon clients (one scenario: two goroutines sharing one client) issuing AddCmd/DelCmd/NextCmdSeq/CmdsWithSeq/PrevCmd over in-memory scheduler-aware connections; every schedule with <=%d departures from the default goroutine; each complete call/return history plus the final store content must be linearizable w.r.t. the sequential store model (brute force over all orders); class = distinct (scenario, history)", cfg.Bound))
		c.Assume("pkg/daemon, pkg/rpc rewritten for the controlled scheduler; scheduling points before every db.Update/db.View in pkg/store; bbolt's own transaction isolation is trusted (no points inside bbolt); net.Dial is replaced by an in-memory duplex connection whose reads are scheduling points")
		vshard.Run(c, c26Scenarios(), cfg)
	})
}
