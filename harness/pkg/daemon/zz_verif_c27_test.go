//go:build verif

package daemon

import (
	"fmt"
	"io"
	"net"
	"os"
	"strings"
	"syscall"
	"testing"
	"time"

	"src.elv.sh/pkg/daemon/daemondefs"
	"src.elv.sh/pkg/daemon/internal/api"
	"src.elv.sh/pkg/store"
	"src.elv.sh/pkg/store/storedefs"
	"src.elv.sh/pkg/zzverif/vk"
	"src.elv.sh/pkg/zzverif/vsched"
	"src.elv.sh/pkg/zzverif/vshard"
)

// ---- the modelled environment: socket name space, listeners, database lock ----
// Only the token holder touches it, so no locking is needed. Every operation
// that a real process performs as a system call is preceded by a scheduling point.

type c27Env struct {
	entries   map[string]*c27Sock
	nextInode int
	dbOwner   string
	daemons   int
	sigs      []chan os.Signal
	bound     map[string]bool // daemons that created a socket of their own
}

type c27Sock struct {
	inode   int
	creator string
	ln      *c27Listener // nil: left behind by a crashed daemon
}

type c27Listener struct {
	env      *c27Env
	path     string
	owner    string
	inode    int
	queue    []net.Conn
	closed   bool
	unlinked bool
}

func (l *c27Listener) Accept() (net.Conn, error) {
	vsched.WaitUntil("accept", func() bool { return len(l.queue) > 0 || l.closed })
	if l.closed {
		return nil, fmt.Errorf("accept: listener closed")
	}
	c := l.queue[0]
	l.queue = l.queue[1:]
	return c, nil
}

// Close behaves like net.UnixListener.Close for a listener created by Listen:
// it unlinks the path (whatever is there) the first time.
func (l *c27Listener) Close() error {
	vsched.Point("listener-close")
	if l.closed {
		return fmt.Errorf("already closed")
	}
	l.closed = true
	for _, c := range l.queue {
		c.Close() // connections in the backlog are reset
	}
	l.queue = nil
	if e, ok := l.env.entries[l.path]; ok {
		if e.inode != l.inode {
			vsched.Logf("FOREIGN-UNLINK:its-own-socket-had-been-replaced %s closing its listener unlinked socket inode %d created by %s", l.owner, e.inode, e.creator)
		}
		delete(l.env.entries, l.path)
	}
	return nil
}

func (l *c27Listener) Addr() net.Addr { return &net.UnixAddr{Name: l.path, Net: "unix"} }

type c27Store struct {
	storedefs.Store // nil: only the methods below are used by the harness
	env             *c27Env
	owner           string
	id              int
}

func (s *c27Store) NextCmdSeq() (int, error) { return s.id, nil }
func (s *c27Store) Close() error {
	vsched.Point("store-close")
	if s.env.dbOwner == s.owner {
		s.env.dbOwner = ""
	}
	return nil
}

func c27Install(env *c27Env, scratch string) {
	enoent := func(op, path string) error { return &os.PathError{Op: op, Path: path, Err: syscall.ENOENT} }
	vsched.Hooks["lstat"] = func(path string) (os.FileInfo, error) {
		vsched.Point("lstat")
		if _, ok := env.entries[path]; ok {
			return nil, nil
		}
		return nil, enoent("lstat", path)
	}
	vsched.Hooks["remove"] = func(path string) error {
		vsched.Point("remove")
		e, ok := env.entries[path]
		if !ok {
			return enoent("remove", path)
		}
		who := vsched.Tag()
		if strings.HasPrefix(who, "daemon") && e.creator != who {
			how := "its-own-socket-had-been-replaced"
			if !env.bound[who] {
				how = "it-never-bound-a-socket"
			}
			vsched.Logf("FOREIGN-UNLINK:%s %s removed socket inode %d created by %s", how, who, e.inode, e.creator)
		}
		if strings.HasPrefix(who, "shell") && e.ln != nil && !e.ln.closed {
			vsched.Logf("note: %s removed the socket of the live %s", who, e.creator)
		}
		delete(env.entries, path)
		return nil
	}
	vsched.Hooks["listen"] = func(network, path string) (net.Listener, error) {
		vsched.Point("listen")
		if _, ok := env.entries[path]; ok {
			return nil, &net.OpError{Op: "listen", Net: network, Err: &os.SyscallError{Syscall: "bind", Err: syscall.EADDRINUSE}}
		}
		env.nextInode++
		if env.bound == nil {
			env.bound = map[string]bool{}
		}
		env.bound[vsched.Tag()] = true
		ln := &c27Listener{env: env, path: path, owner: vsched.Tag(), inode: env.nextInode}
		env.entries[path] = &c27Sock{inode: env.nextInode, creator: vsched.Tag(), ln: ln}
		return ln, nil
	}
	vsched.DialHook = func(network, path string) (net.Conn, error) {
		vsched.Point("dial")
		e, ok := env.entries[path]
		if !ok {
			return nil, &net.OpError{Op: "dial", Net: network, Err: &os.SyscallError{Syscall: "connect", Err: syscall.ENOENT}}
		}
		if e.ln == nil || e.ln.closed {
			return nil, &net.OpError{Op: "dial", Net: network, Err: &os.SyscallError{Syscall: "connect", Err: syscall.ECONNREFUSED}}
		}
		c1, c2 := vsched.Pipe()
		e.ln.queue = append(e.ln.queue, c2)
		return c1, nil
	}
	vsched.Hooks["newstore"] = func(dbpath string) (store.DBStore, error) {
		vsched.Point("open-db")
		who := vsched.Tag()
		if env.dbOwner != "" {
			// the lock is held: either it is released within bbolt's 1 s timeout, or the open times out
			sel := vsched.Select(false,
				vsched.CaseVirtual("db-lock-released", func() bool { return env.dbOwner == "" }),
				vsched.CaseVirtual("db-lock-timeout", func() bool { return true }))
			if sel.Index == 1 {
				return nil, fmt.Errorf("timeout")
			}
		}
		env.dbOwner = who
		var id int
		fmt.Sscanf(who, "daemon%d", &id)
		return &c27Store{env: env, owner: who, id: id}, nil
	}
	// killDaemon's process.Signal(os.Interrupt): the signal goes to the daemon that currently owns the socket
	vsched.Hooks["kill"] = func(sig os.Signal) error {
		vsched.Point("kill")
		e, ok := env.entries["/run/sock"]
		var id int
		if ok {
			fmt.Sscanf(e.creator, "daemon%d", &id)
		}
		if id < 1 || id > len(env.sigs) {
			return fmt.Errorf("no such process")
		}
		vsched.Logf("note: %s sent an interrupt to daemon%d", vsched.Tag(), id)
		select {
		case env.sigs[id-1] <- syscall.SIGINT:
		default:
		}
		return nil
	}
	vsched.Hooks["sleep"] = func(d time.Duration) { vsched.Sleep(25) }
	vsched.Hooks["since"] = func(t time.Time) time.Duration { return time.Duration(vsched.Sleeps()) * 400 * time.Millisecond }
	startProcess = func(name string, argv []string, attr *os.ProcAttr) error {
		var sock, db string
		for i, a := range argv {
			if a == "-sock" {
				sock = argv[i+1]
			}
			if a == "-db" {
				db = argv[i+1]
			}
		}
		vsched.Logf("SPAWN of daemon%d by %s", env.daemons+1, vsched.Tag())
		c27StartDaemon(env, sock, db, nil)
		return nil
	}
}

func c27StartDaemon(env *c27Env, sock, db string, version *int) chan struct{} {
	env.daemons++
	tag := fmt.Sprintf("daemon%d", env.daemons)
	sig := make(chan os.Signal, 1)
	env.sigs = append(env.sigs, sig)
	ready := make(chan struct{})
	vsched.Go(func() {
		vsched.SetTag(tag)
		code := Serve(sock, db, ServeOpts{Signals: sig, Ready: ready, Version: version})
		vsched.Logf("%s exited code=%d", tag, code)
	})
	return ready
}

type c27Scen struct {
	name    string
	initial string // absent | stale | live
	shells  int
	// shell 1 disconnects as soon as it is activated (instead of waiting for the others)
	firstLeavesEarly bool
	// liveVersion is added to api.Version for the daemon that serves the socket initially ("live" scenarios):
	// +1 = started by a newer elvish (must be left alone), -1 = outdated (is killed and replaced, by design)
	liveVersion int
	// resident: a client is connected to the initial daemon for the whole scenario and calls it again at the end
	resident bool
}

func c27Body(sc c27Scen) func() {
	base := os.Getenv("VERIF_SCRATCH")
	return func() {
		// a fresh run directory per execution (spawn claims a daemon-N.log file in it)
		scratch, err := os.MkdirTemp(base, fmt.Sprintf("c27-%d-", os.Getpid()))
		if err != nil {
			panic(err)
		}
		defer os.RemoveAll(scratch)
		logger.SetOutput(io.Discard)
		env := &c27Env{entries: map[string]*c27Sock{}}
		c27Install(env, scratch)
		const sock, db = "/run/sock", "/run/db"
		switch sc.initial {
		case "stale":
			env.nextInode++
			env.entries[sock] = &c27Sock{inode: env.nextInode, creator: "crashed-daemon"}
		case "live":
			v := api.Version + sc.liveVersion
			ready := c27StartDaemon(env, sock, db, &v)
			vsched.Recv(ready)
		}
		var resident *client
		if sc.resident {
			vsched.SetTag("resident")
			resident = NewClient(sock).(*client)
			if _, err := resident.Version(); err != nil {
				panic(err)
			}
			vsched.SetTag("")
		}
		activated := 0
		finished := 0
		for i := 1; i <= sc.shells; i++ {
			i := i
			vsched.Go(func() {
				name := fmt.Sprintf("shell%d", i)
				vsched.SetTag(name)
				cl, err := Activate(io.Discard, &daemondefs.SpawnConfig{DbPath: db, SockPath: sock, RunDir: scratch})
				if err != nil {
					msg := err.Error()
					if j := strings.Index(msg, ":"); j > 0 {
						msg = msg[:j]
					}
					vsched.Logf("%s activate error: %s", name, msg)
				} else {
					id, err2 := cl.NextCmdSeq()
					if err2 != nil {
						vsched.Logf("%s activated but daemon-has-no-database: %v", name, err2)
					} else {
						vsched.Logf("%s activated on daemon%d", name, id)
					}
				}
				activated++
				if !(sc.firstLeavesEarly && i == 1) {
					vsched.WaitUntil("all-shells-activated", func() bool { return activated == sc.shells })
				}
				if err == nil {
					id, err2 := cl.NextCmdSeq()
					if err2 != nil {
						vsched.Logf("%s later-call failed: %v", name, err2)
					} else {
						vsched.Logf("%s still on daemon%d", name, id)
					}
				}
				cl.Close()
				finished++
			})
		}
		vsched.WaitUntil("shells-finished", func() bool { return finished == sc.shells })
		if resident != nil {
			if id, err := resident.NextCmdSeq(); err != nil {
				vsched.Logf("resident later-call failed: %v", err)
			} else {
				vsched.Logf("resident still on daemon%d", id)
			}
			resident.Close()
		}
		// end of scenario: daemons that never had a client would wait forever; interrupt them
		for _, s := range env.sigs {
			select {
			case s <- syscall.SIGTERM:
			default:
			}
		}
	}
}

func c27Oracle(sc c27Scen) func(r *vsched.Result) [][2]string {
	return func(r *vsched.Result) [][2]string {
		var out [][2]string
		seen := map[string]bool{}
		add := func(k, m string) {
			if !seen[k] {
				seen[k] = true
				out = append(out, [2]string{k, m + fmt.Sprintf("; log %v", r.Log)})
			}
		}
		if r.Deadlock {
			add("deadlock", fmt.Sprintf("blocked: %v", r.Blocked))
		}
		if r.Panics > 0 {
			add("panic", "a goroutine panicked")
		}
		still := map[string]string{}
		for _, l := range r.Log {
			switch {
			case strings.HasPrefix(l, "FOREIGN-UNLINK"):
				add("daemon-removed-a-socket-it-did-not-create:"+strings.Fields(l)[0][len("FOREIGN-UNLINK:"):], l)
			case strings.Contains(l, "daemon-has-no-database"):
				add("activated-on-daemon-without-database:socket-initially-"+sc.initial, l)
			case strings.Contains(l, "later-call failed"):
				if !seen["activated-on-daemon-without-database:socket-initially-"+sc.initial] {
					add("daemon-stopped-serving-a-connected-client", l)
				}
			case strings.HasPrefix(l, "SPAWN ") && sc.initial == "live" && sc.liveVersion >= 0:
				add("spawned-a-daemon-although-a-live-one-of-a-current-version-was-serving", l)
			case strings.Contains(l, " still on "):
				f := strings.Fields(l)
				still[f[0]] = f[3]
			}
		}
		if !sc.firstLeavesEarly {
			// all activated shells were connected at the same time (at the barrier)
			ds := map[string]bool{}
			for _, d := range still {
				ds[d] = true
			}
			if len(ds) > 1 {
				add("two-daemons-serving-at-once", fmt.Sprintf("shells are connected to different daemons at the same time: %v", still))
			}
		}
		return out
	}
}

func c27Scenarios() []vshard.Scenario {
	var scs []vshard.Scenario
	for _, sc := range []c27Scen{
		{"one-shell-absent", "absent", 1, false, 0, false},
		{"one-shell-stale", "stale", 1, false, 0, false},
		{"two-shells-absent", "absent", 2, false, 0, false},
		{"two-shells-stale", "stale", 2, false, 0, false},
		{"two-shells-live", "live", 2, false, 0, false},
		{"first-leaves-while-second-activates", "absent", 2, true, 0, false},
		{"first-leaves-while-second-activates-stale", "stale", 2, true, 0, false},
		// version skew: a daemon started by a newer elvish, with a connected client, must be left alone
		{"one-shell-live-newer-daemon-with-resident-client", "live", 1, false, 1, true},
		{"two-shells-live-newer-daemon-with-resident-client", "live", 2, false, 1, true},
		{"one-shell-live-same-version-with-resident-client", "live", 1, false, 0, true},
		// an outdated daemon is interrupted and replaced
		{"one-shell-live-outdated-daemon", "live", 1, false, -1, false},
	} {
		sc := sc
		scs = append(scs, vshard.Scenario{Name: sc.name, Body: c27Body(sc), MultiOracle: c27Oracle(sc),
			Class: func(r *vsched.Result) string {
				var keep []string
				for _, l := range r.Log {
					if !strings.HasPrefix(l, "note:") {
						keep = append(keep, l)
					}
				}
				return strings.Join(keep, "|")
			}})
	}
	return scs
}

func TestVerifC27(t *testing.T) {
	cfg := vshard.Config{Delay: true, Bound: 2, MaxPoints: 20000}
	if os.Getenv("VERIF_TIER") == "thorough" {
		cfg.Bound = 3
	}
	if vshard.IsWorker() {
		vshard.Serve(c27Scenarios(), cfg)
		return
	}
	vk.Run(t, "C27", "model_checking", func(c *vk.Ctx) {
		c.Rule(fmt.Sprintf("11 scenarios (1-2 shells; socket absent, stale or served by a live daemon of the same, a newer or an outdated version, three of them with a resident client connected throughout; one shell leaving while the other activates) of the REAL Activate, Serve, daemon client and rpc code running as goroutines under the controlled scheduler against a modelled environment (socket name space with inodes, listeners with backlog, database lock with timeout, virtual sleep clock); every schedule with <=%d departures from the default goroutine; class = distinct observation log", cfg.Bound))
		c.Assume("the operating-system environment is a model: os.Lstat/os.Remove/net.Listen/net.Dial/store.NewStore/time.Sleep/time.Since call sites in pkg/daemon are redirected to it and process spawning becomes a goroutine running the real Serve; UnixListener.Close unlinks its path as Go's does; killDaemon's signal is delivered to the Signals channel of the daemon owning the socket",
			"the implementation itself is what is explored (no separate protocol model), so every explored transition is an implementation step")
		vshard.Run(c, c27Scenarios(), cfg)
	})
}
