//go:build verif

package edit

// C28: editor buffer commands keep the cursor valid and edit exactly.
//
// Part 1 (exploration): every buffer over a small alphabet x every dot on a
// character boundary x every entry of bufferBuiltinsData, judged by an oracle
// that works on the rune array and is written from buffer_builtins.d.elv and
// the "Word types" section of website/ref/edit.md.
//
// Part 2 (explicit-state search): breadth-first search over the real
// tk.CodeArea (exact state through the verif hook tk.C28Snap/C28Restore) driven
// by key and bracketed-paste events with all three abbreviation kinds
// configured, judged by an accounting oracle written from insert_api.d.elv.

import (
	"fmt"
	"sort"
	"strings"
	"sync"
	"testing"
	"unicode"
	"unicode/utf8"

	"src.elv.sh/pkg/cli/term"
	"src.elv.sh/pkg/cli/tk"
	"src.elv.sh/pkg/parse"
	"src.elv.sh/pkg/ui"
	"src.elv.sh/pkg/zzverif/vk"
)

// ---------------------------------------------------------------------------
// shared: violation collector that keeps the smallest counterexample per key
// (so that the printed case does not depend on worker scheduling)

type c28Finding struct{ rank, msg, replay string }

type c28Collector struct {
	mu sync.Mutex
	m  map[string]c28Finding
}

func (v *c28Collector) report(key, rank, msg, replay string) {
	v.mu.Lock()
	if v.m == nil {
		v.m = map[string]c28Finding{}
	}
	if old, ok := v.m[key]; !ok || rank < old.rank {
		v.m[key] = c28Finding{rank, msg, replay}
	}
	v.mu.Unlock()
}

func (v *c28Collector) flush(c *vk.Ctx) {
	v.mu.Lock()
	defer v.mu.Unlock()
	keys := make([]string, 0, len(v.m))
	for k := range v.m {
		keys = append(keys, k)
	}
	sort.Strings(keys)
	for _, k := range keys {
		c.Violate(k, v.m[k].msg, v.m[k].replay)
	}
	v.m = nil
}

// ---------------------------------------------------------------------------
// Part 1: pure buffer builtins

// 9 symbols; the last one is two runes (e + combining acute accent).
var c28Alpha = []string{"a", "b", "1", "-", "/", " ", "\n", "好", "é"}

// The 26 commands documented in buffer_builtins.d.elv.
var c28Documented = []string{
	"kill-alnum-word-left", "kill-alnum-word-right", "kill-line-left", "kill-line-right",
	"kill-rune-left", "kill-rune-right", "kill-small-word-left", "kill-small-word-right",
	"kill-word-left", "kill-word-right",
	"move-dot-down", "move-dot-eol", "move-dot-left", "move-dot-left-alnum-word",
	"move-dot-left-small-word", "move-dot-left-word", "move-dot-right", "move-dot-right-alnum-word",
	"move-dot-right-small-word", "move-dot-right-word", "move-dot-sol", "move-dot-up",
	"transpose-alnum-word", "transpose-rune", "transpose-small-word", "transpose-word",
}

// Which movement defines the extent of each kill command.
var c28KillMotion = map[string]string{
	"kill-rune-left": "move-dot-left", "kill-rune-right": "move-dot-right",
	"kill-word-left": "move-dot-left-word", "kill-word-right": "move-dot-right-word",
	"kill-small-word-left": "move-dot-left-small-word", "kill-small-word-right": "move-dot-right-small-word",
	"kill-alnum-word-left": "move-dot-left-alnum-word", "kill-alnum-word-right": "move-dot-right-alnum-word",
	"kill-line-left": "move-dot-sol", "kill-line-right": "move-dot-eol",
}

// Documented character classes (website/ref/edit.md, "Word types"): whitespace =
// Unicode White_Space property, alphanumerical = Unicode Letter or Number.
func c28IsSpace(r rune) bool { return unicode.Is(unicode.White_Space, r) }
func c28IsAlnum(r rune) bool { return unicode.In(r, unicode.L, unicode.N) }

// Display width, independent of pkg/wcwidth (enough for the alphabet).
func c28Width(r rune) int {
	switch {
	case unicode.Is(unicode.Mn, r):
		return 0
	case unicode.Is(unicode.Han, r):
		return 2
	}
	return 1
}

// Word flavours: 0 = (big) word, 1 = small word, 2 = alnum word. Category 0 is
// "not part of any word".
func c28Cat(flavour int, r rune) int {
	switch flavour {
	case 0:
		if c28IsSpace(r) {
			return 0
		}
		return 1
	case 1:
		switch {
		case c28IsSpace(r):
			return 0
		case c28IsAlnum(r):
			return 1
		}
		return 2
	}
	if c28IsAlnum(r) {
		return 1
	}
	return 0
}

// c28Words returns the words (maximal runs of one non-zero category) as
// [start,end) rune indices.
func c28Words(runes []rune, flavour int) [][2]int {
	var ws [][2]int
	for i := 0; i < len(runes); {
		ct := c28Cat(flavour, runes[i])
		j := i + 1
		for j < len(runes) && c28Cat(flavour, runes[j]) == ct {
			j++
		}
		if ct != 0 {
			ws = append(ws, [2]int{i, j})
		}
		i = j
	}
	return ws
}

type c28Pre struct {
	s     string
	runes []rune
	off   []int // byte offset of rune index i; off[len(runes)] == len(s)
	words [3][][2]int
}

func c28MakePre(s string) *c28Pre {
	p := &c28Pre{s: s, runes: []rune(s)}
	for i := range s {
		p.off = append(p.off, i)
	}
	p.off = append(p.off, len(s))
	for f := 0; f < 3; f++ {
		p.words[f] = c28Words(p.runes, f)
	}
	return p
}

func c28Flavour(name string) int {
	switch {
	case strings.Contains(name, "small-word"):
		return 1
	case strings.Contains(name, "alnum-word"):
		return 2
	}
	return 0
}

func (p *c28Pre) sol(k int) int {
	for k > 0 && p.runes[k-1] != '\n' {
		k--
	}
	return k
}

func (p *c28Pre) eol(k int) int {
	for k < len(p.runes) && p.runes[k] != '\n' {
		k++
	}
	return k
}

func (p *c28Pre) width(from, to int) int {
	w := 0
	for _, r := range p.runes[from:to] {
		w += c28Width(r)
	}
	return w
}

// columnTargets: the positions of the line [ts,te] that best preserve column col.
func (p *c28Pre) columnTargets(ts, te, col int) []int {
	var exact, lower, upper []int
	lo, hi := -1, -1
	for q := ts; q <= te; q++ {
		w := p.width(ts, q)
		switch {
		case w == col:
			exact = append(exact, q)
		case w < col:
			if w > lo {
				lo, lower = w, nil
			}
			lower = append(lower, q)
		default:
			if hi == -1 || w < hi {
				hi, upper = w, nil
			}
			if w == hi {
				upper = append(upper, q)
			}
		}
	}
	if len(exact) > 0 {
		return exact
	}
	// column not reachable: line too short -> its widest positions; a wide
	// character straddles the column -> either side of it
	return append(lower, upper...)
}

// c28Targets returns the acceptable new dot positions (rune indices) of a
// movement, or judged=false when the documentation does not determine it.
func c28Targets(motion string, p *c28Pre, k int) (targets []int, judged bool) {
	n := len(p.runes)
	switch motion {
	case "left":
		if k == 0 {
			return []int{0}, true
		}
		return []int{k - 1}, true
	case "right":
		if k == n {
			return []int{n}, true
		}
		return []int{k + 1}, true
	case "sol":
		return []int{p.sol(k)}, true
	case "eol":
		return []int{p.eol(k)}, true
	case "up":
		sol := p.sol(k)
		if sol == 0 {
			return []int{k}, true // "Does nothing if dot is already on the first line"
		}
		te := sol - 1
		return p.columnTargets(p.sol(te), te, p.width(sol, k)), true
	case "down":
		eol := p.eol(k)
		if eol == n {
			return []int{k}, true
		}
		ts := eol + 1
		return p.columnTargets(ts, p.eol(ts), p.width(p.sol(k), k)), true
	}
	ws := p.words[c28Flavour(motion)]
	if strings.HasPrefix(motion, "left") {
		// "the beginning of the last word to the left of the dot"
		best := -1
		for _, w := range ws {
			if w[0] < k {
				best = w[0]
			}
		}
		if best < 0 {
			return nil, false
		}
		return []int{best}, true
	}
	// "the beginning of the first word to the right of the dot"
	for _, w := range ws {
		if w[0] > k {
			return []int{w[0]}, true
		}
	}
	return nil, false
}

func c28SortedRunes(s string) string {
	r := []rune(s)
	sort.Slice(r, func(i, j int) bool { return r[i] < r[j] })
	return string(r)
}

func c28ValidBuf(b tk.CodeBuffer) string {
	switch {
	case b.Dot < 0 || b.Dot > len(b.Content):
		return "dot-out-of-range"
	case !utf8.ValidString(b.Content):
		return "invalid-utf8"
	case b.Dot < len(b.Content) && !utf8.RuneStart(b.Content[b.Dot]):
		return "dot-inside-character"
	}
	return ""
}

// c28SwapWords returns the buffer with the adjacent words i and i+1 exchanged
// (the text between them stays in place).
func c28SwapWords(p *c28Pre, ws [][2]int, i int) string {
	a, b := ws[i], ws[i+1]
	return string(p.runes[:a[0]]) + string(p.runes[b[0]:b[1]]) + string(p.runes[a[1]:b[0]]) +
		string(p.runes[a[0]:a[1]]) + string(p.runes[b[1]:])
}

// c28CheckPure runs one builtin on (buffer, dot at rune index k) and judges it.
// It returns a violation kind ("" = fine), a message, whether the specific
// result was judged (beyond validity) and the resulting buffer.
func c28CheckPure(name string, table map[string]func(*tk.CodeBuffer), p *c28Pre, k int) (kind, msg string, judged bool, after tk.CodeBuffer) {
	before := tk.CodeBuffer{Content: p.s, Dot: p.off[k]}
	after = before
	if pn := vk.Try(func() { table[name](&after) }); pn != "" {
		return "panic", pn, true, after
	}
	if v := c28ValidBuf(after); v != "" {
		return v, fmt.Sprintf("result %q dot %d", after.Content, after.Dot), true, after
	}
	switch {
	case strings.HasPrefix(name, "move-dot-"):
		if after.Content != p.s {
			return "move-changed-content", fmt.Sprintf("content became %q", after.Content), true, after
		}
		targets, ok := c28Targets(strings.TrimPrefix(name, "move-dot-"), p, k)
		if !ok {
			return "", "", false, after
		}
		var want []int
		for _, t := range targets {
			if after.Dot == p.off[t] {
				return "", "", true, after
			}
			want = append(want, p.off[t])
		}
		return "wrong-target", fmt.Sprintf("dot moved to %d, documented target(s) %v", after.Dot, want), true, after
	case strings.HasPrefix(name, "kill-"):
		// "Kill commands delete exactly the text between the old and new cursor":
		// the new cursor is where the corresponding movement puts it.
		moved := before
		if pn := vk.Try(func() { table[c28KillMotion[name]](&moved) }); pn != "" {
			return "", "", false, after // reported under the movement itself
		}
		if moved.Dot < 0 || moved.Dot > len(p.s) {
			return "", "", false, after
		}
		lo, hi := before.Dot, moved.Dot
		if lo > hi {
			lo, hi = hi, lo
		}
		want := tk.CodeBuffer{Content: p.s[:lo] + p.s[hi:], Dot: lo}
		if after != want {
			return "kill-not-exact", fmt.Sprintf("%s moves the dot to %d, so the kill must give %q dot %d; got %q dot %d",
				c28KillMotion[name], moved.Dot, want.Content, want.Dot, after.Content, after.Dot), true, after
		}
		return "", "", true, after
	case name == "transpose-rune":
		if after.Content != p.s && c28SortedRunes(after.Content) != c28SortedRunes(p.s) {
			return "transpose-not-permutation", fmt.Sprintf("result %q", after.Content), true, after
		}
		n := len(p.runes)
		if n < 2 {
			return "", "", false, after
		}
		i := k - 1
		if k == 0 {
			i = 0
		} else if k == n {
			i = n - 2
		}
		r := append([]rune{}, p.runes...)
		r[i], r[i+1] = r[i+1], r[i]
		if after.Content != string(r) {
			return "transpose-wrong-swap", fmt.Sprintf("result %q, documented result %q", after.Content, string(r)), true, after
		}
		return "", "", true, after
	case strings.HasPrefix(name, "transpose-"):
		if after.Content != p.s && c28SortedRunes(after.Content) != c28SortedRunes(p.s) {
			return "transpose-not-permutation", fmt.Sprintf("result %q", after.Content), true, after
		}
		ws := p.words[c28Flavour(name)]
		nw := len(ws)
		if nw < 2 {
			return "", "", false, after
		}
		n := len(p.runes)
		var pairs []int
		switch {
		case k == 0:
			pairs = []int{0} // "at the beginning of the buffer, swaps the first two words"
		case k == n:
			pairs = []int{nw - 2} // "at the end, it swaps the last two"
		default:
			for i := 0; i+1 < nw; i++ {
				if ws[i][1] <= k && k <= ws[i+1][0] { // dot between the two words
					pairs = []int{i}
				}
			}
			if pairs == nil { // dot inside a word or in leading/trailing blanks: either neighbouring pair
				for i := 0; i+1 < nw; i++ {
					if ws[i][0] <= k && k <= ws[i+1][1] {
						pairs = append(pairs, i)
					}
				}
			}
			if pairs == nil {
				if k < ws[0][0] {
					pairs = []int{0}
				} else {
					pairs = []int{nw - 2}
				}
			}
		}
		var want []string
		for _, i := range pairs {
			w := c28SwapWords(p, ws, i)
			if after.Content == w {
				return "", "", true, after
			}
			want = append(want, w)
		}
		return "transpose-wrong-swap", fmt.Sprintf("result %q, documented result(s) %q", after.Content, want), true, after
	}
	return "unknown-command", "no oracle for this command", true, after
}

func c28RuneClass(p *c28Pre, i int) byte {
	if i < 0 || i >= len(p.runes) {
		return '^'
	}
	r := p.runes[i]
	switch {
	case r == '\n':
		return 'n'
	case c28IsSpace(r):
		return 's'
	case c28Width(r) == 2:
		return 'w'
	case c28Width(r) == 0:
		return 'c'
	case c28IsAlnum(r):
		return 'a'
	}
	return 'p'
}

func c28Pure(c *vk.Ctx, col *c28Collector, maxLen int) {
	table := bufferBuiltinsData
	var names []string
	for name := range table {
		names = append(names, name)
	}
	sort.Strings(names)
	if strings.Join(names, " ") != strings.Join(c28Documented, " ") {
		c.Violate("pure/command-table-differs-from-documentation",
			fmt.Sprintf("bufferBuiltinsData has %v, buffer_builtins.d.elv documents %v", names, c28Documented), names)
	}
	var notJudged int64
	var mu sync.Mutex
	c.EnumSeqs(len(c28Alpha), maxLen, func(l *vk.Local, idx []int) {
		s := vk.Join(c28Alpha, idx)
		p := c28MakePre(s)
		n := len(p.runes)
		var nj int64
		for k := 0; k <= n; k++ {
			pos := byte('M')
			if k == 0 {
				pos = 'B'
			}
			if k == n {
				pos = 'E' // the empty buffer counts as E
			}
			lc, rc := c28RuneClass(p, k-1), c28RuneClass(p, k)
			for _, name := range names {
				kind, msg, judged, after := c28CheckPure(name, table, p, k)
				if kind != "" {
					col.report("pure/"+kind+":"+name, fmt.Sprintf("%04d%04d%s", len(s), k, s),
						fmt.Sprintf("edit:%s on buffer %q with dot at byte %d: %s", name, s, p.off[k], msg),
						fmt.Sprintf("%s %q dot=%d", name, s, p.off[k]))
				}
				out := byte('=')
				switch {
				case after.Content != s:
					out = 'c'
				case after.Dot < p.off[k]:
					out = '<'
				case after.Dot > p.off[k]:
					out = '>'
				}
				j := byte('J')
				if !judged {
					j = 'N'
					nj++
				}
				l.Case(name + "/" + string([]byte{pos, lc, rc, out, j}))
			}
		}
		if nj > 0 {
			mu.Lock()
			notJudged += nj
			mu.Unlock()
		}
		if len(idx) == maxLen && idx[0] == 7 && idx[1] == 5 && idx[maxLen-1] == 0 {
			c.Sample(s)
		}
	})
	col.flush(c)
	c.Set("pure_not_judged_beyond_validity", notJudged)
	c.Set("pure_commands", len(names))
	c.Set("pure_max_symbols", maxLen)
}

// ---------------------------------------------------------------------------
// Part 2: the code area

var c28Simple = [][2]string{{"ab", "xyz"}, {"aab", "L好"}, {"-好", "é"}, {"a-", "<>"}}
var c28Command = [][2]string{{"b", "bb"}, {"好", "hao x"}}
var c28Small = [][2]string{{"a", "A1"}, {"-a", "好-"}, {"好", "ni"}}

const (
	c28Graphic = iota
	c28Backspace
	c28Enter
	c28PasteStart
	c28PasteEnd
	c28Left
	c28Right
	c28Unbound
)

type c28Event struct {
	name string
	kind int
	ev   term.Event
}

var c28Events = []c28Event{
	{"a", c28Graphic, term.K('a')},
	{"b", c28Graphic, term.K('b')},
	{"SP", c28Graphic, term.K(' ')},
	{"-", c28Graphic, term.K('-')},
	{"好", c28Graphic, term.K('好')},
	{"Backspace", c28Backspace, term.K(ui.Backspace)},
	{"Enter", c28Enter, term.K(ui.Enter)},
	{"PasteStart", c28PasteStart, term.PasteSetting(true)},
	{"PasteEnd", c28PasteEnd, term.PasteSetting(false)},
	{"Left", c28Left, term.K(ui.Left)},
	{"Right", c28Right, term.K(ui.Right)},
	{"Up", c28Unbound, term.K(ui.Up)},
}

// Left and Right are bound, as in the real editor, to the buffer builtins.
type c28Bindings struct{}

func (c28Bindings) Handle(w tk.Widget, e term.Event) bool {
	name := ""
	switch e {
	case term.K(ui.Left):
		name = "move-dot-left"
	case term.K(ui.Right):
		name = "move-dot-right"
	default:
		return false
	}
	w.(tk.CodeArea).MutateState(func(s *tk.CodeAreaState) { bufferBuiltinsData[name](&s.Buffer) })
	return true
}

func c28Each(list [][2]string) func(func(a, f string)) {
	return func(f func(a, f string)) {
		for _, e := range list {
			f(e[0], e[1])
		}
	}
}

// c28Node = exact state of the real widget x state of the oracle.
type c28Node struct {
	st tk.CodeAreaState
	pv tk.C28Private
	// oracle state
	typed    string // keys typed consecutively since the last other event or expansion
	pasting  bool
	paste    string // rune keys since the first paste start
	paste2   string // rune keys since the latest paste start
	pasteAmb bool   // a paste start arrived during a paste
}

type c28Cand struct {
	kind, abbr string
	buf        tk.CodeBuffer
	due        bool
}

func c28LastRune(s string) rune  { r, _ := utf8.DecodeLastRuneInString(s); return r }
func c28FirstRune(s string) rune { r, _ := utf8.DecodeRuneInString(s); return r }

// c28CommandPosition: is a word that starts right after pre in command position?
// (start of the buffer or of a line, or after | ; ( or "{ "), per the language
// reference: a command is the first word of a pipeline form.
func c28CommandPosition(pre string) bool {
	if pre == "" {
		return true
	}
	switch c28LastRune(pre) {
	case ' ', '\t', '\n', '|', ';', '(':
	default:
		return false // the word is longer than the abbreviation
	}
	t := strings.TrimRight(pre, " \t\n")
	blanks := pre[len(t):]
	if t == "" {
		return true
	}
	if strings.Contains(blanks, "\n") && !(strings.HasSuffix(t, "^") && strings.HasPrefix(blanks, "\n")) {
		return true
	}
	switch c28LastRune(t) {
	case '|', ';', '(':
		return true
	case '{':
		return blanks != ""
	}
	return false
}

// c28Candidates lists every documented outcome of typing key k at (C, d).
func c28Candidates(n *c28Node, k string) []c28Cand {
	C, d := n.st.Buffer.Content, n.st.Buffer.Dot
	P, pd := C[:d]+k+C[d:], d+len(k)
	cands := []c28Cand{{"plain", "", tk.CodeBuffer{Content: P, Dot: pd}, false}}
	typedK := n.typed + k
	for _, e := range c28Simple {
		a, f := e[0], e[1]
		if strings.HasSuffix(P[:pd], a) {
			cands = append(cands, c28Cand{"simple", a,
				tk.CodeBuffer{Content: P[:pd-len(a)] + f + P[pd:], Dot: pd - len(a) + len(f)},
				strings.HasSuffix(typedK, a)})
		}
	}
	kr := c28FirstRune(k)
	for _, e := range c28Small {
		a, f := e[0], e[1]
		if pd != len(P) || !strings.HasSuffix(P, a+k) {
			continue
		}
		if c28Cat(1, kr) == c28Cat(1, c28LastRune(a)) {
			continue
		}
		pre := P[:len(P)-len(a)-len(k)]
		if pre != "" && c28Cat(1, c28LastRune(pre)) == c28Cat(1, c28FirstRune(a)) {
			continue
		}
		nc := pre + f + k
		cands = append(cands, c28Cand{"small", a, tk.CodeBuffer{Content: nc, Dot: len(nc)}, strings.HasSuffix(n.typed, a)})
	}
	if k == " " || k == "\t" {
		for _, e := range c28Command {
			a, f := e[0], e[1]
			if !strings.HasSuffix(P[:pd], a+k) || !c28CommandPosition(P[:pd-len(a)-len(k)]) {
				continue
			}
			cands = append(cands, c28Cand{"command", a,
				tk.CodeBuffer{Content: P[:pd-len(a)-len(k)] + f + k + P[pd:], Dot: pd - len(a) + len(f)},
				pd == len(P)})
		}
	}
	return cands
}

type c28Verdict struct {
	key, msg string
}

type c28StepResult struct {
	next    c28Node
	class   string
	verdict []c28Verdict
	may     bool // an abbreviation was expanded although its text was not typed consecutively
}

func c28DotPos(b tk.CodeBuffer) string {
	switch {
	case len(b.Content) == 0:
		return "0"
	case b.Dot == 0:
		return "B"
	case b.Dot == len(b.Content):
		return "E"
	}
	return "M"
}

// c28Step applies one event to the real widget restored to state n and judges it.
func c28Step(quote bool, n *c28Node, e c28Event) (res c28StepResult) {
	submits := 0
	spec := tk.CodeAreaSpec{
		Bindings:               c28Bindings{},
		SimpleAbbreviations:    c28Each(c28Simple),
		CommandAbbreviations:   c28Each(c28Command),
		SmallWordAbbreviations: c28Each(c28Small),
		QuotePaste:             func() bool { return quote },
		OnSubmit:               func() { submits++ },
	}
	w := tk.C28Restore(spec, n.st, n.pv)
	handled := false
	if pn := vk.Try(func() { handled = w.Handle(e.ev) }); pn != "" {
		res.verdict = append(res.verdict, c28Verdict{"codearea/panic:" + vk.PanicSite(pn), pn})
		res.next = *n
		res.class = e.name + "/panic"
		return
	}
	st2, pv2 := tk.C28Snap(w)
	nx := c28Node{st: st2, pv: pv2, typed: "", pasting: n.pasting, paste: n.paste, paste2: n.paste2, pasteAmb: n.pasteAmb}
	old, got := n.st.Buffer, st2.Buffer
	bad := func(key, format string, a ...any) {
		res.verdict = append(res.verdict, c28Verdict{key, fmt.Sprintf(format, a...)})
	}
	if v := c28ValidBuf(got); v != "" {
		bad("codearea/"+v+":"+e.name, "buffer became %q dot %d", got.Content, got.Dot)
	}
	wantSubmits := 0
	outcome := "same"
	expectSame := func(why string) {
		if got != old {
			bad("codearea/unaccounted-edit:"+e.name, "%s must leave the buffer unchanged; got %q dot %d", why, got.Content, got.Dot)
			outcome = "changed"
		}
	}
	switch {
	case n.pasting && e.kind == c28PasteStart:
		expectSame("a paste start")
		nx.pasteAmb, nx.paste2 = true, ""
	case n.pasting && e.kind != c28PasteEnd:
		expectSame("a key during a bracketed paste")
		k := ui.Key(e.ev.(term.KeyEvent))
		if k.Mod == 0 && k.Rune >= 0 {
			nx.paste += string(k.Rune)
			nx.paste2 += string(k.Rune)
			outcome = "buffered"
		} else {
			outcome = "dropped"
		}
	case e.kind == c28PasteEnd:
		texts := []string{n.paste}
		if n.pasteAmb && n.paste2 != n.paste {
			texts = append(texts, n.paste2)
		}
		ok := false
		for _, t := range texts {
			if quote {
				t = parse.Quote(t)
			}
			if got == (tk.CodeBuffer{Content: old.Content[:old.Dot] + t + old.Content[old.Dot:], Dot: old.Dot + len(t)}) {
				ok = true
			}
		}
		if !ok {
			bad("codearea/paste-not-inserted-exactly", "pasted keys %q (quote=%v) at %q dot %d gave %q dot %d", n.paste, quote, old.Content, old.Dot, got.Content, got.Dot)
		}
		outcome = fmt.Sprintf("paste%d", min(len([]rune(n.paste)), 3))
		if strings.ContainsAny(n.paste, "\n\x7f") {
			outcome += "ctl"
		}
		nx.pasting, nx.paste, nx.paste2, nx.pasteAmb = false, "", "", false
	case e.kind == c28PasteStart:
		expectSame("a paste start")
		nx.pasting = true
	case e.kind == c28Enter:
		expectSame("Enter (submit)")
		wantSubmits = 1
	case e.kind == c28Unbound:
		expectSame("an unbound function key")
	case e.kind == c28Backspace, e.kind == c28Left, e.kind == c28Right:
		r := []rune(old.Content[:old.Dot])
		want := old
		switch {
		case e.kind == c28Right:
			if old.Dot < len(old.Content) {
				want.Dot += len(string(c28FirstRune(old.Content[old.Dot:])))
			}
		case len(r) == 0:
		case e.kind == c28Left:
			want.Dot -= len(string(r[len(r)-1]))
		default:
			want.Dot -= len(string(r[len(r)-1]))
			want.Content = string(r[:len(r)-1]) + old.Content[old.Dot:]
		}
		if got != want {
			bad("codearea/unaccounted-edit:"+e.name, "%s at %q dot %d must give %q dot %d; got %q dot %d", e.name, old.Content, old.Dot, want.Content, want.Dot, got.Content, got.Dot)
		}
		if want != old {
			outcome = "done"
		}
	default: // a graphic key typed outside a paste
		k := string(ui.Key(e.ev.(term.KeyEvent)).Rune)
		cands := c28Candidates(n, k)
		match := -1
		for i := range cands {
			if cands[i].buf == got && (match < 0 || (cands[i].due && !cands[match].due)) {
				match = i
			}
		}
		var dueSimple, dueSmall, dueCommand *c28Cand
		for i := range cands {
			cd := &cands[i]
			if !cd.due {
				continue
			}
			switch cd.kind {
			case "simple":
				if dueSimple == nil || len(cd.abbr) > len(dueSimple.abbr) {
					dueSimple = cd
				}
			case "small":
				if dueSmall == nil || len(cd.abbr) > len(dueSmall.abbr) {
					dueSmall = cd
				}
			case "command":
				dueCommand = cd
			}
		}
		// What must happen: a due command abbreviation and a due simple/small-word
		// abbreviation have no documented order (either is accepted); simple has
		// priority over small-word; the longest one of a kind wins.
		var allowed []*c28Cand
		if dueCommand != nil {
			allowed = append(allowed, dueCommand)
		}
		if dueSimple != nil {
			allowed = append(allowed, dueSimple)
		} else if dueSmall != nil {
			allowed = append(allowed, dueSmall)
		}
		describe := func() string {
			var s []string
			for _, a := range allowed {
				s = append(s, fmt.Sprintf("%s abbreviation %q -> %q dot %d", a.kind, a.abbr, a.buf.Content, a.buf.Dot))
			}
			return strings.Join(s, " or ")
		}
		switch {
		case match < 0:
			bad("codearea/unaccounted-edit:key", "typing %q at %q dot %d gave %q dot %d, which is neither the plain insertion nor a documented abbreviation expansion", k, old.Content, old.Dot, got.Content, got.Dot)
			outcome = "unaccounted"
		case len(allowed) > 0:
			ok := false
			for _, a := range allowed {
				if a.buf == got {
					ok = true
					outcome = a.kind + ":" + a.abbr
				}
			}
			if !ok && match == 0 {
				bad("codearea/abbreviation-not-expanded:"+allowed[0].kind, "typing %q after consecutively typed %q at %q dot %d must expand (%s); got plain %q dot %d", k, n.typed, old.Content, old.Dot, describe(), got.Content, got.Dot)
				outcome = "plain!"
			} else if !ok && !cands[match].due {
				// e.g. [a Right a b]: the no-op Right does not interrupt typing for
				// the widget, so "aab" wins over the due "ab": not judged
				res.may = true
				outcome = "may-" + cands[match].kind + ":" + cands[match].abbr
			} else if !ok {
				bad("codearea/abbreviation-wrong-choice", "typing %q after consecutively typed %q at %q dot %d must expand (%s); got the %s abbreviation %q: %q dot %d", k, n.typed, old.Content, old.Dot, describe(), cands[match].kind, cands[match].abbr, got.Content, got.Dot)
				outcome = "wrong-choice"
			}
		case match == 0:
			outcome = "plain"
		default:
			// expansion of text that is in place but was not typed consecutively
			// according to the oracle's bookkeeping: outside the property, counted
			res.may = true
			outcome = "may-" + cands[match].kind + ":" + cands[match].abbr
		}
		if match == 0 && outcome == "plain" {
			nx.typed = n.typed + k
		}
	}
	if submits != wantSubmits {
		bad("codearea/submit-count:"+e.name, "OnSubmit called %d times, want %d", submits, wantSubmits)
	}
	res.next = nx
	h := "h"
	if !handled {
		h = "u"
	}
	p := ""
	if n.pasting {
		p = "P"
	}
	res.class = "ca/" + e.name + "/" + p + c28DotPos(old) + "/" + outcome + "/" + h
	return
}

func c28Path(path string) string {
	var s []string
	for _, b := range []byte(path) {
		s = append(s, c28Events[b].name)
	}
	return strings.Join(s, " ")
}

func c28Hash(n *c28Node) uint32 {
	h := uint32(2166136261)
	for _, s := range []string{n.st.Buffer.Content, n.pv.Inserts, n.pv.Paste, n.typed} {
		for i := 0; i < len(s); i++ {
			h = (h ^ uint32(s[i])) * 16777619
		}
		h = (h ^ 0xff) * 16777619
	}
	return (h ^ uint32(n.st.Buffer.Dot)) * 16777619
}

type c28Front struct {
	n    c28Node
	path string
}

// c28BFS explores every state reachable by <= depth events from the empty code
// area, level by level, and judges every transition.
func c28BFS(c *vk.Ctx, col *c28Collector, quote bool, depth int, tag string) {
	const nshards = 256
	var shards [nshards]struct {
		mu sync.Mutex
		m  map[c28Node]struct{}
	}
	for i := range shards {
		shards[i].m = map[c28Node]struct{}{}
	}
	init := c28Node{}
	shards[c28Hash(&init)%nshards].m[init] = struct{}{}
	frontier := []c28Front{{init, ""}}
	var states, transitions, may int64 = 1, 0, 0
	var mayExample string
	perLevel := []int{1}
	for d := 0; d < depth && len(frontier) > 0; d++ {
		if c.TimeUp() {
			c.Capped(fmt.Sprintf("time budget reached before BFS level %d (%s)", d+1, tag))
			break
		}
		var mu sync.Mutex
		var next []c28Front
		c.Parallel(len(frontier), func(l *vk.Local, i int) {
			f := &frontier[i]
			var fresh []c28Front
			var lmay int64
			var lex string
			for ei, e := range c28Events {
				r := c28Step(quote, &f.n, e)
				l.Case(r.class)
				path := f.path + string([]byte{byte(ei)})
				for _, v := range r.verdict {
					col.report(v.key, fmt.Sprintf("%04d%s", len(path), path),
						fmt.Sprintf("code area (quote-paste=%v) after events [%s]: %s", quote, c28Path(path), v.msg),
						fmt.Sprintf("quote-paste=%v events: %s", quote, c28Path(path)))
				}
				if r.may {
					lmay++
					if lex == "" {
						lex = fmt.Sprintf("[%s] -> %q", c28Path(path), r.next.st.Buffer.Content)
					}
				}
				if len(r.verdict) > 0 {
					continue // do not search on from a state reached by a violating transition
				}
				sh := &shards[c28Hash(&r.next)%nshards]
				sh.mu.Lock()
				_, seen := sh.m[r.next]
				if !seen {
					sh.m[r.next] = struct{}{}
				}
				sh.mu.Unlock()
				if !seen {
					fresh = append(fresh, c28Front{r.next, path})
				}
			}
			mu.Lock()
			next = append(next, fresh...)
			transitions += int64(len(c28Events))
			may += lmay
			if lex != "" && (mayExample == "" || len(lex) < len(mayExample) || (len(lex) == len(mayExample) && lex < mayExample)) {
				mayExample = lex
			}
			mu.Unlock()
		})
		states += int64(len(next))
		perLevel = append(perLevel, len(next))
		frontier = next
		col.flush(c)
	}
	c.Set("bfs_"+tag+"_depth", depth)
	c.Set("bfs_"+tag+"_states", states)
	c.Set("bfs_"+tag+"_transitions", transitions)
	c.Set("bfs_"+tag+"_new_states_per_level", perLevel)
	c.Set("bfs_"+tag+"_expansions_not_judged_text_not_typed_consecutively", may)
	if mayExample != "" {
		c.Set("bfs_"+tag+"_expansions_not_judged_example", mayExample)
	}
	c.Add("states", states)
	c.Add("transitions", transitions)
}

func TestVerifC28(t *testing.T) {
	vk.Run(t, "C28", "model_checking", func(c *vk.Ctx) {
		nb := vk.Pick(c, 5, 6)
		depth := vk.Pick(c, 6, 7)
		var evNames []string
		for _, e := range c28Events {
			evNames = append(evNames, e.name)
		}
		c.Rule(fmt.Sprintf("(1) every buffer of <=%d symbols over %q (the last symbol is two runes) x every dot on a rune boundary x each of the 26 entries of bufferBuiltinsData; class = (command, dot at begin/middle/end, kind of the character left and right of the dot, effect: none/dot left/dot right/content changed, judged or validity-only). (2) breadth-first search over the exact states of the real tk.CodeArea from the empty buffer: every sequence of <=%d events over %v (quote-paste off; <=%d with quote-paste on), states de-duplicated on (buffer, dot, private insertion and paste bookkeeping, oracle bookkeeping), with simple abbreviations %v, command abbreviations %v, small-word abbreviations %v, Left/Right bound to the real move-dot-left/right; class = (event, pasting, dot position, outcome, handled)",
			nb, c28Alpha, depth, evNames, depth-1, c28Simple, c28Command, c28Small))
		c.Assume(
			"word motions: 'the last word to the left of the dot' / 'the first word to the right of the dot' are read as the words whose beginning is strictly left / right of the dot; when there is no such word the target is not judged (only cursor validity)",
			"kill commands are judged relative to the real movement command they are derived from (which is judged on its own)",
			"transpose commands: the dot after the command is judged for validity only; with fewer than two words/runes only 'nothing added or dropped' is judged; with the dot inside a word either neighbouring pair of words may be swapped",
			"move-dot-up/down: the target must be a position of the adjacent line whose column (independent width table) equals the old column, else the line's widest position(s), else either side of a straddling wide character",
			"code area: the verif-tagged hook tk.C28Snap/C28Restore copies the widget's fields faithfully; parse.Quote is trusted for quoted pastes; function keys during a paste are taken to be dropped; abbreviation expansion of text that is in place but was not typed consecutively (e.g. after Left then Right) is counted, not judged",
		)
		col := &c28Collector{}
		c28Pure(c, col, nb)
		c28BFS(c, col, false, depth, "plain")
		c28BFS(c, col, true, depth-1, "quote")
	})
}
