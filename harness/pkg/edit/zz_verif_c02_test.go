//go:build verif

package edit

// C02: errors in prefixes of valid programs are partial, and the Enter key
// (edit:smart-enter) keeps reading on them.
//
// Bounded-exhaustive: a depth-first walk of the tree of all token strings over
// a small alphabet. Every node is parsed by the real parser and handed to the
// real smartEnter; a node that has a cleanly parsing strict descendant is, by
// construction, a proper prefix of a valid program and is judged as such.

import (
	"fmt"
	"os"
	"sort"
	"strings"
	"sync"
	"testing"
	"time"
	"unicode/utf8"

	"src.elv.sh/pkg/cli"
	"src.elv.sh/pkg/cli/clitest"
	"src.elv.sh/pkg/cli/term"
	"src.elv.sh/pkg/cli/tk"
	"src.elv.sh/pkg/eval"
	"src.elv.sh/pkg/parse"
	"src.elv.sh/pkg/store"
	"src.elv.sh/pkg/testutil"
	"src.elv.sh/pkg/ui"
	"src.elv.sh/pkg/zzverif/vk"
)

// The program alphabet (30 tokens): every delimiter of the grammar, both quote
// kinds, the escape introducer, line continuation, comment, variable, redirection
// signs, separators including CR, a multi-byte rune and several multi-rune
// tokens (which add cuts inside a token).
var c02Wide = []string{"a", "if", " ", "\n", ";", "|", "&", "=", "{", "}", "[", "]", "(", ")", "'", "\"", "\\", "^",
	"$x", "@", ">", "<", "#", ",", "~", "*", "?(", "é", ":", "\r"}

// The 20-token program alphabet of the plan (a subset of the above), walked one
// token deeper than the 30-token one.
var c02Prog = []string{"a", "if", " ", "\n", ";", "|", "&", "=", "{", "}", "[", "]", "(", ")", "'", "\"", "^", "$x", ">", "#"}

// The structural core (12 tokens), walked deeper.
var c02Core = []string{"a", " ", "\n", "|", "&", "=", "{", "}", "[", "]", "(", ")"}

// The string-escape alphabet (12 tokens): everything the double-quote escape
// parser looks at, walked deeper.
var c02Esc = []string{"\"", "\\", "x", "u", "c", "^", "0", "00", "7", "a", "@", "$"}

// ---------------------------------------------------------------------------
// A stub cli.App around a real code area, so that the real smartEnter can be
// called millions of times without an event loop.

type c02App struct {
	cli.App // nil: any method smartEnter is not expected to call panics
	area    tk.CodeArea
	seq     []byte // 'f' = autofix applied, 'c' = CommitCode, 'n' = Notify
}

func (a *c02App) FocusedWidget() tk.Widget { return a.area }
func (a *c02App) ActiveWidget() tk.Widget  { return a.area }
func (a *c02App) CommitCode()              { a.seq = append(a.seq, 'c') }
func (a *c02App) Notify(ui.Text)           { a.seq = append(a.seq, 'n') }
func (a *c02App) Redraw()                  {}
func (a *c02App) RedrawFull()              {}

type c02Worker struct {
	app *c02App
	ed  *Editor
	// counters, summed at the end
	valid, prefixes, cleanPrefixes, mixed, partialNoCompletion, dotRuns int64
}

func c02NewWorker() *c02Worker {
	w := &c02Worker{app: &c02App{area: tk.NewCodeArea(tk.CodeAreaSpec{})}}
	w.ed = &Editor{app: w.app}
	w.ed.applyAutofix = func() { w.app.seq = append(w.app.seq, 'f') }
	return w
}

// enter puts s into the code area with the cursor at byte offset dot, calls
// the real smartEnter and reports whether it inserted a newline (true) or
// submitted (false); bad != "" when it did neither properly.
func (w *c02Worker) enter(s string, dot int) (inserted bool, bad, msg string) {
	w.app.seq = w.app.seq[:0]
	w.app.area.MutateState(func(st *tk.CodeAreaState) {
		*st = tk.CodeAreaState{Buffer: tk.CodeBuffer{Content: s, Dot: dot}}
	})
	if p := vk.Try(func() { smartEnter(w.ed) }); p != "" {
		return false, "enter-panic:" + vk.PanicSite(p), fmt.Sprintf("smart-enter on %q (cursor at %d) panicked: %s", s, dot, p)
	}
	buf := w.app.area.CopyState().Buffer
	seq := string(w.app.seq)
	switch {
	case seq == "" && len(buf.Content) == len(s)+1 && buf.Content[:dot] == s[:dot] && buf.Content[dot] == '\n' && buf.Content[dot+1:] == s[dot:] && buf.Dot == dot+1:
		return true, "", ""
	case buf.Content == s && buf.Dot == dot && seq == "fc":
		return false, "", ""
	case buf.Content == s && buf.Dot == dot && seq == "c":
		return false, "enter-submit-skips-autofix", fmt.Sprintf("smart-enter on %q submitted the code without applying pending autofixes first (documented: \"applies any pending autofixes and accepts the current line\")", s)
	case seq == "" && buf.Content != s:
		return false, "enter-newline-not-at-cursor", fmt.Sprintf("smart-enter on %q with the cursor at %d did not submit and changed the buffer to %q with cursor %d; expected %q with cursor %d (one newline inserted at the cursor)", s, dot, buf.Content, buf.Dot, s[:dot]+"\n"+s[dot:], dot+1)
	default:
		return false, "enter-malformed-outcome", fmt.Sprintf("smart-enter on %q (cursor at %d): buffer is now %q with cursor %d, calls=%q (f=autofix c=commit n=notify); expected either exactly one newline inserted at the cursor and no submit, or unchanged buffer, autofix, submit", s, dot, buf.Content, buf.Dot, seq)
	}
}

// ---------------------------------------------------------------------------

// c02Info is what one visit of a string observed.
type c02Info struct {
	nErr, nPartial int
	nonPartial     string // description of the first error not marked partial
	nonPartialMsg  string
	inserted       bool
	enterOK        bool
	class          string
}

type c02Viol struct{ key, msg, replay string }

type c02Run struct {
	c     *vk.Ctx
	name  string
	alpha []string
	cuts  [][]string // per token: its non-empty proper prefixes cut at rune boundaries
	depth int
	shard []string // witness returned for the node (i,j), filled by the parallel phase
	top   bool

	mu      sync.Mutex
	viol    map[string]c02Viol
	collect func(s string, expectInsert bool, witness string)
}

func c02Cuts(alpha []string) [][]string {
	out := make([][]string, len(alpha))
	for i, t := range alpha {
		for k := range t { // range over a string yields rune starts
			if k > 0 {
				out[i] = append(out[i], t[:k])
			}
		}
	}
	return out
}

// violate keeps, per key, the shortest (then lexicographically least) failing
// input, so that what is finally printed does not depend on worker scheduling.
func (r *c02Run) violate(key, msg, replay string) {
	r.mu.Lock()
	defer r.mu.Unlock()
	old, ok := r.viol[key]
	if !ok || len(replay) < len(old.replay) || (len(replay) == len(old.replay) && replay < old.replay) {
		r.viol[key] = c02Viol{key, msg, replay}
	}
}

func c02Flush(c *vk.Ctx, viol map[string]c02Viol) {
	var keys []string
	for k := range viol {
		keys = append(keys, k)
	}
	sort.Strings(keys)
	for _, k := range keys {
		c.Violate(k, viol[k].msg, viol[k].replay)
	}
}

func c02Slug(msg string) string {
	if strings.HasPrefix(msg, "unexpected rune") {
		msg = "unexpected rune"
	}
	return strings.Map(func(r rune) rune {
		switch {
		case r >= 'a' && r <= 'z', r >= 'A' && r <= 'Z', r >= '0' && r <= '9':
			return r
		}
		return '-'
	}, msg)
}

func c02Kinds(n parse.Node, kinds *uint32) {
	if p, ok := n.(*parse.Primary); ok {
		*kinds |= 1 << uint(p.Type)
	}
	switch n.(type) {
	case *parse.Redir:
		*kinds |= 1 << 16
	case *parse.MapPair:
		*kinds |= 1 << 17
	case *parse.Array:
		*kinds |= 1 << 18
	}
	for _, ch := range parse.Children(n) {
		c02Kinds(ch, kinds)
	}
}

// visit parses s with the real parser, checks the clause about partial errors
// (for every input), calls the real smartEnter and checks that its decision
// agrees with the Partial flags.
func (r *c02Run) visit(w *c02Worker, s string, allDots bool) c02Info {
	var info c02Info
	var tree parse.Tree
	var err error
	if p := vk.Try(func() { tree, err = parse.Parse(parse.Source{Name: "c02", Code: s}, parse.Config{}) }); p != "" {
		r.violate("parse-panic:"+vk.PanicSite(p), fmt.Sprintf("Parse(%q) panicked: %s", s, p), s)
		info.class = "parse-panic"
		return info
	}
	errs := parse.UnpackErrors(err)
	if err != nil && errs == nil {
		r.violate("non-parse-error", fmt.Sprintf("Parse(%q) returned an error that is not a parse error: %v", s, err), s)
	}
	info.nErr = len(errs)
	var sum strings.Builder
	for i, e := range errs {
		if e.Partial {
			info.nPartial++
			// Clause 2: every parse error marked partial starts at the very end of the input.
			if e.Context.From != len(s) {
				r.violate("partial-error-not-at-end", fmt.Sprintf("Parse(%q): error %q is marked Partial but covers [%d,%d) of an input of length %d; a partial error must start at the very end of the input", s, e.Message, e.Context.From, e.Context.To, len(s)), s)
			}
		} else if info.nonPartial == "" {
			info.nonPartialMsg = e.Message
			info.nonPartial = fmt.Sprintf("%q at [%d,%d)", e.Message, e.Context.From, e.Context.To)
		}
		if i < 2 {
			if strings.HasPrefix(e.Message, "unexpected rune") {
				sum.WriteString("unexpected rune")
			} else {
				sum.WriteString(e.Message)
			}
			if e.Partial {
				sum.WriteString("+P;")
			} else {
				sum.WriteString("+N;")
			}
		}
	}
	if info.nErr == 0 {
		w.valid++
	}

	ins, bad, msg := w.enter(s, len(s))
	if bad != "" {
		r.violate(bad, msg, s)
	} else {
		info.enterOK = true
		info.inserted = ins
		// Agreement of the Enter decision with the Partial flags. Partial is
		// documented as "true iff there exists a string x such that appending it to
		// the input eliminates the error"; smart-enter is documented as "if the
		// current code is syntactically incomplete, inserts a literal newline;
		// otherwise ... accepts the current line".
		switch {
		case info.nErr == 0 && ins:
			r.violate("enter-newline-on-clean-code", fmt.Sprintf("%q parses without error, yet Enter inserted a newline instead of accepting the line", s), s)
		case info.nErr > 0 && info.nPartial == 0 && ins:
			r.violate("enter-newline-without-partial-error", fmt.Sprintf("%q has %d parse error(s), none marked partial (first: %s), so no continuation can fix it, yet Enter inserted a newline instead of accepting the line", s, info.nErr, info.nonPartial), s)
		case info.nErr > 0 && info.nPartial == info.nErr && !ins:
			r.violate("enter-submits-code-with-only-partial-errors", fmt.Sprintf("%q has only parse errors marked partial (%d; first %q), i.e. the code is incomplete, yet Enter submitted it instead of inserting a newline", s, info.nErr, errs[0].Message), s)
		case info.nErr > 0 && info.nPartial > 0 && info.nPartial < info.nErr:
			w.mixed++ // documentation does not say whether such code is "incomplete": not judged here
		}
	}

	// The decision is documented as depending on "the current code", and the
	// newline goes where the cursor is: repeat with the cursor at every other rune
	// boundary of the buffer.
	if allDots && info.enterOK {
		for d := range s { // rune starts 0..len(s)-1
			ins2, bad2, msg2 := w.enter(s, d)
			w.dotRuns++
			if bad2 != "" {
				r.violate(bad2, msg2, s)
			} else if ins2 != ins {
				what := map[bool]string{true: "inserts a newline", false: "submits the code"}
				r.violate("enter-decision-depends-on-cursor", fmt.Sprintf("code %q (%d parse errors, %d partial): with the cursor at the end Enter %s, with the cursor at byte %d Enter %s; whether the code is incomplete does not depend on the cursor", s, info.nErr, info.nPartial, what[ins], d, what[ins2]), s)
			}
		}
	}

	var kinds uint32
	if tree.Root != nil {
		c02Kinds(tree.Root, &kinds)
	}
	e := "s"
	if !info.enterOK {
		e = "x"
	} else if ins {
		e = "n"
	}
	info.class = fmt.Sprintf("%x|%d|%s|%s", kinds, info.nErr, sum.String(), e)
	return info
}

// judgePrefix applies clauses 1 and 3 to s, which is a proper prefix (cut at a
// rune boundary) of the cleanly parsing program valid.
func (r *c02Run) judgePrefix(w *c02Worker, s string, info c02Info, valid string) {
	w.prefixes++
	if info.nErr == 0 {
		w.cleanPrefixes++
	}
	if info.nonPartial != "" {
		r.violate("prefix-of-valid-has-nonpartial-error:"+c02Slug(info.nonPartialMsg),
			fmt.Sprintf("%q parses without error, but its prefix %q has the parse error %s which is not marked partial (the REPL would report it instead of reading on)", valid, s, info.nonPartial), s)
	}
	if info.nErr > 0 && info.enterOK && !info.inserted {
		r.violate("enter-submits-incomplete-prefix",
			fmt.Sprintf("%q parses without error; its prefix %q has %d parse error(s), but Enter submitted it instead of inserting a newline", valid, s, info.nErr), s)
	}
	if r.collect != nil {
		r.collect(s, info.nErr > 0, valid)
	}
}

// dfs visits the node s (= the tokens idx) and all its descendants and
// returns the shortest cleanly parsing string among them ("" if none).
func (r *c02Run) dfs(w *c02Worker, l *vk.Local, idx []int, s string) string {
	if r.top && len(idx) == 2 {
		return r.shard[idx[0]*len(r.alpha)+idx[1]]
	}
	l.Begin(s)
	info := r.visit(w, s, len(idx) <= c02DotDepth)
	l.End()
	best := ""
	if len(idx) < r.depth {
		if len(idx) <= 3 && r.c.TimeUp() {
			r.c.Capped(fmt.Sprintf("time budget reached in the %s alphabet below a node of %d tokens", r.name, len(idx)))
		} else {
			for j, t := range r.alpha {
				wit := r.dfs(w, l, append(idx, j), s+t)
				if wit == "" {
					continue
				}
				// s+t... is a prefix of (or is) the valid program wit, so every cut
				// inside the token t is a proper prefix of a valid program too.
				for _, cut := range r.cuts[j] {
					l.Begin(s + cut)
					ci := r.visit(w, s+cut, len(idx) < c02DotDepth)
					l.End()
					r.judgePrefix(w, s+cut, ci, wit)
					l.Case(ci.class + "|p")
				}
				if best == "" || len(wit) < len(best) || (len(wit) == len(best) && wit < best) {
					best = wit
				}
			}
		}
	}
	if best != "" {
		r.judgePrefix(w, s, info, best)
		l.Case(info.class + "|p")
	} else {
		if info.nErr > 0 && info.nPartial == info.nErr && len(idx)+2 <= r.depth {
			w.partialNoCompletion++
		}
		l.Case(info.class + "|-")
	}
	if r.collect != nil && info.nErr == 0 {
		r.collect(s, false, s)
	}
	if info.nErr == 0 {
		return s
	}
	return best
}

func c02Explore(c *vk.Ctx, name string, alpha []string, depth int, viol map[string]c02Viol, tot *c02Worker) {
	r := &c02Run{c: c, name: name, alpha: alpha, cuts: c02Cuts(alpha), depth: depth, viol: viol}
	n := len(alpha)
	r.shard = make([]string, n*n)
	var workers sync.Map
	var wmu sync.Mutex
	var all []*c02Worker
	c.Parallel(n*n, func(l *vk.Local, k int) {
		var w *c02Worker
		if v, ok := workers.Load(l); ok {
			w = v.(*c02Worker)
		} else {
			w = c02NewWorker()
			workers.Store(l, w)
			c.Watch(l)
			wmu.Lock()
			all = append(all, w)
			wmu.Unlock()
		}
		idx := make([]int, 2, depth+1)
		idx[0], idx[1] = k/n, k%n
		r.shard[k] = r.dfs(w, l, idx, alpha[idx[0]]+alpha[idx[1]])
	})
	// the root and the one-token nodes, using the shard results
	r.top = true
	w0 := c02NewWorker()
	l0 := vk.NewLocal()
	r.dfs(w0, l0, make([]int, 0, depth+1), "")
	c.Merge(l0)
	all = append(all, w0)
	for _, w := range all {
		tot.valid += w.valid
		tot.prefixes += w.prefixes
		tot.cleanPrefixes += w.cleanPrefixes
		tot.mixed += w.mixed
		tot.partialNoCompletion += w.partialNoCompletion
		tot.dotRuns += w.dotRuns
	}
}

// ---------------------------------------------------------------------------
// Full stack: a real Editor (real bindings from init.elv) on a TTY that can be
// reused over many ReadCode sessions; the Enter key event is injected.

type c02TTY struct {
	events chan term.Event
	stop   chan struct{}
	sigs   chan os.Signal
	mu     sync.Mutex
	buf    *term.Buffer
}

func c02NewTTY() *c02TTY {
	return &c02TTY{events: make(chan term.Event, 64), stop: make(chan struct{}, 1)}
}

func (t *c02TTY) Setup() (func(), error) {
	select { // forget a stop request left over from the previous session
	case <-t.stop:
	default:
	}
	return func() {}, nil
}
func (t *c02TTY) ReadEvent() (term.Event, error) {
	select {
	case e := <-t.events:
		return e, nil
	case <-t.stop:
		return nil, term.ErrStopped
	}
}
func (t *c02TTY) SetRawInput(int) {}
func (t *c02TTY) CloseReader() {
	select {
	case t.stop <- struct{}{}:
	default:
	}
}
func (t *c02TTY) Buffer() *term.Buffer { t.mu.Lock(); defer t.mu.Unlock(); return t.buf }
func (t *c02TTY) ResetBuffer()         { t.mu.Lock(); t.buf = nil; t.mu.Unlock() }
func (t *c02TTY) UpdateBuffer(_ ui.Text, b *term.Buffer, _ bool) error {
	t.mu.Lock()
	t.buf = b
	t.mu.Unlock()
	return nil
}
func (t *c02TTY) ClearScreen()                    {}
func (t *c02TTY) ShowCursor()                     {}
func (t *c02TTY) HideCursor()                     {}
func (t *c02TTY) NotifySignals() <-chan os.Signal { t.sigs = make(chan os.Signal); return t.sigs }
func (t *c02TTY) StopSignals()                    { close(t.sigs) }
func (t *c02TTY) Size() (h, w int)                { return 24, 80 }

type c02FSCase struct {
	s            string
	expectInsert bool
	witness      string
	dot          int
}

const c02EnterWaitSeconds = 120

// Strings of at most this many tokens get Enter with the cursor at every rune
// boundary, not only at the end.
const c02DotDepth = 4

func c02FullStack(t *testing.T, c *vk.Ctx, cases []c02FSCase, viol map[string]c02Viol) {
	if scratch := os.Getenv("VERIF_SCRATCH"); scratch != "" {
		t.Setenv("TMPDIR", scratch)
	}
	st := store.MustTempStore(t)
	testutil.InTempHome(t)
	testutil.Setenv(t, "PATH", "")
	tty := c02NewTTY()
	ev := eval.NewEvaler()
	ed := NewEditor(tty, ev, st)
	ev.ExtendBuiltin(eval.BuildNs().AddNs("edit", ed))
	evals(ev, "set edit:prompt = { put '> ' }", "set edit:rprompt = { }")

	codeCh, errCh := clitest.StartReadCode(ed.ReadCode)
	defer func() {
		ed.app.CommitEOF()
		<-codeCh
		<-errCh
	}()
	put := func(key, msg, s string) {
		old, ok := viol[key]
		if !ok || len(s) < len(old.replay) || (len(s) == len(old.replay) && s < old.replay) {
			viol[key] = c02Viol{key, msg, s}
		}
	}
	area := codeArea(ed.app)
	for _, cs := range cases {
		if c.TimeUp() {
			c.Capped("time budget reached in the full-stack Enter phase")
			return
		}
		area.MutateState(func(s *tk.CodeAreaState) {
			*s = tk.CodeAreaState{Buffer: tk.CodeBuffer{Content: cs.s, Dot: cs.dot}}
		})
		wantBuf := tk.CodeBuffer{Content: cs.s[:cs.dot] + "\n" + cs.s[cs.dot:], Dot: cs.dot + 1}
		tty.events <- term.K(ui.Enter)
		deadline := time.Now().Add(c02EnterWaitSeconds * time.Second)
		outcome := ""
		var code string
		for outcome == "" {
			select {
			case code = <-codeCh:
				if err := <-errCh; err != nil {
					outcome = "error:" + err.Error()
				} else {
					outcome = "submit"
				}
			default:
				if buf := area.CopyState().Buffer; buf.Content != cs.s && buf.Content != "" {
					if buf == wantBuf {
						outcome = "newline"
					} else {
						outcome = fmt.Sprintf("buffer:%q with cursor %d instead of %q with cursor %d", buf.Content, buf.Dot, wantBuf.Content, wantBuf.Dot)
					}
				} else if time.Now().After(deadline) {
					outcome = "nothing"
				} else {
					time.Sleep(20 * time.Microsecond)
				}
			}
		}
		where := ""
		if cs.dot < len(cs.s) {
			where = ":cursor-not-at-end"
		}
		class := "fullstack|" + outcome
		if len(outcome) > 8 {
			class = "fullstack|" + outcome[:6]
		}
		c.Case(fmt.Sprintf("%s|%v%s", class, cs.expectInsert, where))
		switch {
		case outcome == "newline":
			if !cs.expectInsert {
				put("fullstack-enter-newline-on-clean-code"+where, fmt.Sprintf("real editor: %q parses without error, but the Enter key (cursor at byte %d) inserted a newline instead of submitting", cs.s, cs.dot), cs.s)
			}
		case outcome == "submit":
			if cs.expectInsert {
				put("fullstack-enter-submits-incomplete-prefix"+where, fmt.Sprintf("real editor: %q is a prefix with parse errors of the valid program %q, but the Enter key (cursor at byte %d) submitted it instead of inserting a newline", cs.s, cs.witness, cs.dot), cs.s)
			} else if code != cs.s {
				put("fullstack-submitted-code-differs", fmt.Sprintf("real editor: Enter on %q submitted %q", cs.s, code), cs.s)
			}
			codeCh, errCh = clitest.StartReadCode(ed.ReadCode)
		case outcome == "nothing":
			put("fullstack-enter-no-effect", fmt.Sprintf("real editor: the Enter key on %q neither inserted a newline nor submitted within %d s", cs.s, c02EnterWaitSeconds), cs.s)
			return // state of the editor unknown
		default:
			put("fullstack-enter-unexpected-outcome"+where, fmt.Sprintf("real editor: the Enter key on %q (cursor at byte %d) led to %s", cs.s, cs.dot, outcome), cs.s)
			if strings.HasPrefix(outcome, "error:") {
				codeCh, errCh = clitest.StartReadCode(ed.ReadCode)
			}
		}
	}
}

func TestVerifC02(t *testing.T) {
	vk.Run(t, "C02", "exploration", func(c *vk.Ctx) {
		type walk struct {
			name  string
			alpha []string
			depth int
		}
		walks := []walk{
			{"string-escape(12)", c02Esc, 6},
			{"program(30)", c02Wide, vk.Pick(c, 4, 5)},
			{"program(20)", c02Prog, vk.Pick(c, 5, 6)},
			{"structural(12)", c02Core, vk.Pick(c, 6, 7)},
		}
		nFS := vk.Pick(c, 2, 3)
		rule := "depth-first walk of the tree of all token strings (every string of the stated length is visited): "
		for _, wk := range walks {
			if wk.depth > 0 {
				rule += fmt.Sprintf("<=%d tokens over the %s alphabet %q; ", wk.depth, wk.name, wk.alpha)
			}
		}
		c.Rule(rule + fmt.Sprintf("a string that parses with no error is a valid program; every ancestor of it in the tree and every cut inside a multi-rune token on the way (= every proper prefix at a rune boundary) is judged as a prefix of a valid program. Every visited string (prefix or not) is also checked for 'partial errors start at the end' and for agreement of the real smartEnter (cursor at the end) with the Partial flags; every string of <=4 tokens additionally gets smartEnter with the cursor at every other rune boundary (same decision, newline at the cursor). First of all, every distinct prefix of the valid programs of <=%d tokens over the program(30) alphabet, and those programs, get the Enter key event in a real Editor with the cursor at every rune boundary. class = (set of primary/node kinds in the tree, number of errors, first two error messages with their partial flag, Enter outcome, prefix-of-valid or not)", nFS))
		c.Assume("a prefix of a valid program is recognised by the walk itself: some strict descendant within the bound parses with no error (valid programs longer than the bound are not considered)",
			"third clause read as: for every such prefix that has parse errors Enter inserts a newline (a prefix that parses cleanly, like `a` of `a b`, is complete code and must be accepted)",
			"code with both partial and non-partial errors is not judged for Enter agreement (documentation silent); counted as not_judged_mixed_errors",
			"the exhaustive part calls the real smartEnter on a real code area behind a stub cli.App; the cursor is at the end of the buffer, and for strings of <=4 tokens also at every other rune boundary; the real-Editor part covers the Enter binding for the shortest programs",
			fmt.Sprintf("real-Editor part: an Enter key event that has no observable effect within %d s is reported as having no effect", c02EnterWaitSeconds))
		viol := map[string]c02Viol{}

		// full stack first (it is short): collect the cases with a sequential walk of the small tree
		seen := map[string]c02FSCase{}
		r := &c02Run{c: c, name: "program(full-stack)", alpha: c02Wide, cuts: c02Cuts(c02Wide), depth: nFS, viol: map[string]c02Viol{}}
		r.collect = func(s string, expectInsert bool, witness string) {
			if old, ok := seen[s]; ok {
				if old.expectInsert != expectInsert {
					panic(fmt.Sprintf("inconsistent expectation for %q", s))
				}
				return
			}
			seen[s] = c02FSCase{s, expectInsert, witness, 0}
		}
		r.dfs(c02NewWorker(), vk.NewLocal(), make([]int, 0, nFS+1), "")
		var cases []c02FSCase
		for _, cs := range seen {
			if utf8.ValidString(cs.s) {
				cases = append(cases, cs)
			}
		}
		sort.Slice(cases, func(i, j int) bool {
			if len(cases[i].s) != len(cases[j].s) {
				return len(cases[i].s) < len(cases[j].s)
			}
			return cases[i].s < cases[j].s
		})
		var withDots []c02FSCase
		for _, cs := range cases {
			for d := range cs.s {
				if d > 0 {
					withDots = append(withDots, c02FSCase{cs.s, cs.expectInsert, cs.witness, d})
				}
			}
			if len(cs.s) > 0 {
				withDots = append(withDots, c02FSCase{cs.s, cs.expectInsert, cs.witness, 0})
			}
			withDots = append(withDots, c02FSCase{cs.s, cs.expectInsert, cs.witness, len(cs.s)})
		}
		cases = withDots
		c.Set("full_stack_enter_cases", len(cases))
		for i, n := len(cases)-1, 0; i >= 0 && n < 6; i -= 37 {
			if cs := cases[i]; cs.expectInsert {
				c.Sample(map[string]any{"code": cs.s, "enter_must_insert_newline": true, "prefix_of": cs.witness})
				n++
			}
		}
		phase := map[string]float64{}
		t0 := time.Now()
		c02FullStack(t, c, cases, viol)
		phase["real-editor"] = time.Since(t0).Seconds()

		tot := &c02Worker{}
		for _, wk := range walks {
			if wk.depth >= 2 {
				t0 = time.Now()
				c02Explore(c, wk.name, wk.alpha, wk.depth, viol, tot)
				phase[wk.name] = time.Since(t0).Seconds()
			}
		}
		c.Set("phase_wall_seconds", phase)
		c.Set("enter_runs_with_cursor_not_at_end", tot.dotRuns)
		c.Set("valid_programs", tot.valid)
		c.Set("prefixes_of_valid_programs_judged", tot.prefixes)
		c.Set("prefixes_that_parse_cleanly", tot.cleanPrefixes)
		c.Set("not_judged_mixed_errors", tot.mixed)
		c.Set("only_partial_errors_but_no_valid_completion_within_2_more_tokens_not_judged", tot.partialNoCompletion)
		c02Flush(c, viol)
	})
}
