//go:build verif

package highlight

import (
	"fmt"
	"os"
	"strings"
	"testing"

	"src.elv.sh/pkg/eval"
	"src.elv.sh/pkg/parse"
	"src.elv.sh/pkg/ui"
	"src.elv.sh/pkg/zzverif/vk"
	"src.elv.sh/pkg/zzverif/vsched"
	"src.elv.sh/pkg/zzverif/vshard"
)

var c30Tokens = []string{"a", "echo", "nop", "$", "$x", "'", "\"", "\\", " ", "\n", ";", "|", "&", "#", "~", "*", "?",
	"(", ")", "[", "]", "{", "}", "<", ">", "=", "é", "\xff", "if", "var", "fn", "x:", "-", "0x1"}

// Second family: the special forms whose arguments are highlighted as variables (semantic regions that can span
// several leaves of the parse tree, e.g. `del [a]`), followed by every short argument string.
var c30Heads = []string{"del ", "var ", "set ", "tmp ", "with ", "for ", "fn ", "use ", "try { } catch ", "echo ; del "}
var c30ArgTokens = []string{"a", "b", " ", "[", "]", "{", "}", ",", "=", "1", "$", "x:", "@", "~", "é"}

func c30Text(t ui.Text) string {
	var sb strings.Builder
	for _, seg := range t {
		sb.WriteString(seg.Text)
	}
	return sb.String()
}

func c30Style(t ui.Text) string {
	var sb strings.Builder
	for _, seg := range t {
		fmt.Fprintf(&sb, "%v|", seg.Style)
	}
	return sb.String()
}

// c30Staleness: the editor thread calls Get for a sequence of buffers (as after
// key presses); HasCommand is slow (a scheduling point), the timer may fire
// first or not; an observer keeps checking the cache invariant.
func c30Scenarios() []vshard.Scenario {
	mk := func(name string, codes []string) vshard.Scenario {
		body := func() {
			maxBlockForLate = 1
			hl := NewHighlighter(Config{HasCommand: func(cmd string) bool {
				vsched.Point("has-command")
				return cmd == "echo"
			}})
			check := func(where string) {
				hl.cacheMutex.Lock()
				code, text := hl.cache.code, c30Text(hl.cache.styledCode)
				hl.cacheMutex.Unlock()
				if code != text {
					vsched.Logf("STALE at %s: cache is for code %q but holds text %q", where, code, text)
				}
			}
			vsched.Go(func() {
				for i := 0; i < 3; i++ {
					check("observer")
				}
			})
			for i, c := range codes {
				if c == "!invalidate" {
					hl.InvalidateCache() // what edit:apply-autofix and friends do
					check("after InvalidateCache")
					continue
				}
				t, _ := hl.Get(c)
				if got := c30Text(t); got != c {
					vsched.Logf("WRONG Get(%q) returned text %q", c, got)
				}
				// like the editor: take pending late notifications, then redraw with the current code
				select {
				case <-hl.LateUpdates():
					t2, _ := hl.Get(c)
					if got := c30Text(t2); got != c {
						vsched.Logf("WRONG Get(%q) after late update returned text %q", c, got)
					}
					vsched.Logf("late-seen at %d", i)
				default:
				}
				check(fmt.Sprintf("after Get #%d", i))
			}
			// let every late goroutine finish, then look again
			vsched.WaitUntil("quiesce", func() bool { return true })
			check("end")
			last := codes[len(codes)-1]
			t, _ := hl.Get(last)
			if got := c30Text(t); got != last {
				vsched.Logf("WRONG final Get(%q) returned text %q", last, got)
			}
			vsched.Logf("final style %s", c30Style(t))
		}
		return vshard.Scenario{Name: name, Body: body, Oracle: func(r *vsched.Result) (string, string) {
			if r.Panics > 0 {
				return "panic", fmt.Sprint(r.Log)
			}
			for _, l := range r.Log {
				if strings.HasPrefix(l, "STALE") {
					return "stale-late-result-shown", l
				}
				if strings.HasPrefix(l, "WRONG") {
					return "highlighted-text-differs-from-code", l
				}
			}
			// goroutines blocked forever delivering a late result are not part of this property
			return "", ""
		}}
	}
	return []vshard.Scenario{
		mk("A-B-A", []string{"echo a", "ls b", "echo a"}),
		mk("typing", []string{"e", "ec", "echo", "echo x"}),
		mk("A-B", []string{"echo a; nop b", "ls"}),
		// cache invalidation followed by other (also empty) code, as after applying an autofix and clearing the line
		mk("A-invalidate-empty", []string{"echo a", "!invalidate", ""}),
		mk("A-invalidate-A-empty-A", []string{"ls", "!invalidate", "ls", "", "ls"}),
		mk("empty-A-empty", []string{"", "echo a", ""}),
	}
}

func c30One(c *vk.Ctx, l *vk.Local, cfgs []Config, code, fam string) {
	for ci, cfg := range cfgs {
		var text ui.Text
		var tips []ui.Text
		if p := vk.Try(func() { text, tips = highlight(code, cfg, func(ui.Text) {}) }); p != "" {
			c.Violate("highlight-panic:"+vk.PanicSite(p), fmt.Sprintf("highlight(%q) config %d: %s", code, ci, p), code)
			continue
		}
		if got := c30Text(text); got != code {
			c.Violate(fmt.Sprintf("highlighted-text-differs-from-code:config%d", ci), fmt.Sprintf("highlight(%q) config %d: segments concatenate to %q", code, ci, got), code)
		}
		styles := map[string]bool{}
		for _, seg := range text {
			styles[fmt.Sprint(seg.Style)] = true
		}
		l.Case(fmt.Sprintf("%s%d/%d/%d", fam, ci, len(styles), len(tips)))
	}
}

func TestVerifC30(t *testing.T) {
	cfg := vshard.Config{Delay: true, Bound: 2, MaxPoints: 3000}
	if os.Getenv("VERIF_TIER") == "thorough" {
		cfg.Bound = 3
	}
	if vshard.IsWorker() {
		vshard.Serve(c30Scenarios(), cfg)
		return
	}
	vk.Run(t, "C30", "exploration", func(c *vk.Ctx) {
		n := vk.Pick(c, 3, 4)
		c.Rule(fmt.Sprintf("(1) every string of <=%d tokens over a 34-token alphabet highlighted with no configuration, with the real Evaler's Check, and with an instant HasCommand: and every special form head (del/var/set/tmp/with/for/fn/use/catch) followed by every string of <=4 (thorough 5) of 15 argument tokens, so that variable and error regions spanning several parse-tree leaves occur: the segments must concatenate to the code; class = (family, styles used, number of tips). (2) the Highlighter under the controlled scheduler: an editor thread calling Get for 6 buffer sequences (three of them with cache invalidation and the empty buffer) while the command lookup is slow and the 10 ms timer may fire at any moment, plus an observer thread; every schedule with <=%d departures from the default goroutine; the cache must always hold text equal to its code and Get(c) must return text c", n, cfg.Bound))
		c.Assume("pkg/edit/highlight rewritten for the controlled scheduler (time.After becomes a timer that may fire at any moment)")
		ev := eval.NewEvaler()
		cfgs := []Config{
			{},
			{Check: func(tree parse.Tree) (string, []*eval.CompilationError) {
				autofixes, err := ev.CheckTree(tree, nil)
				return strings.Join(autofixes, "; "), eval.UnpackCompilationErrors(err)
			}},
		}
		c.EnumSeqs(len(c30Tokens), n, func(l *vk.Local, idx []int) {
			c30One(c, l, cfgs, vk.Join(c30Tokens, idx), "")
		})
		m := vk.Pick(c, 4, 5)
		c.Set("special_form_family", fmt.Sprintf("%d heads x every string of <=%d of %d argument tokens", len(c30Heads), m, len(c30ArgTokens)))
		for _, head := range c30Heads {
			head := head
			c.EnumSeqs(len(c30ArgTokens), m, func(l *vk.Local, idx []int) {
				code := head + vk.Join(c30ArgTokens, idx)
				c30One(c, l, cfgs, code, "form:")
			})
		}
		c.Sample("echo $x | nop")
		c.Sample("del [a b]")
		vshard.Run(c, c30Scenarios(), cfg)
	})
}
