//go:build verif

package parse

import (
	"fmt"
	"strings"
	"testing"

	"src.elv.sh/pkg/zzverif/vk"
)

// byte-level core alphabet (16 symbols) and token-level alphabet (33 symbols).
var c01Bytes = []string{"a", "$", "'", "\"", "\\", " ", "\n", "|", "(", ")", "[", "]", "{", "}", ">", "\xff"}
var c01Tokens = []string{"a", "$", "'", "\"", "\\", "x", "7", "c", " ", "\n", "\r", ";", "|", "&", "#", "^", "~", "*", "?",
	"(", ")", "[", "]", "{", "}", "<", ">", "=", ",", "é", "\xff", "\xc3", "\x80", "?(", ".."}

// c01CheckTree checks every clause of the losslessness statement on one parse
// result and returns "" or a description of the first violated clause.
func c01CheckTree(src string, tree Tree, err error) (string, string) {
	for _, e := range UnpackErrors(err) {
		r := e.Range()
		if r.From < 0 || r.To < r.From || r.To > len(src) {
			return "error-range-outside-source", fmt.Sprintf("error %q has range [%d,%d) outside source of length %d", e.Message, r.From, r.To, len(src))
		}
	}
	if err != nil && UnpackErrors(err) == nil {
		return "non-parse-error", fmt.Sprintf("Parse returned a non-parse error %v", err)
	}
	root := tree.Root
	if root.From != 0 {
		return "root-range", fmt.Sprintf("root starts at %d", root.From)
	}
	if root.To != len(src) && err == nil {
		return "root-range", fmt.Sprintf("root ends at %d of %d without any error", root.To, len(src))
	}
	var leaves strings.Builder
	var walk func(n Node) (string, string)
	walk = func(n Node) (string, string) {
		r := n.Range()
		if r.From < 0 || r.To < r.From || r.To > len(src) {
			return "node-range", fmt.Sprintf("%T has range [%d,%d)", n, r.From, r.To)
		}
		if SourceText(n) != src[r.From:r.To] {
			return "node-text", fmt.Sprintf("%T text %q != source slice %q", n, SourceText(n), src[r.From:r.To])
		}
		ch := Children(n)
		if len(ch) == 0 {
			leaves.WriteString(SourceText(n))
			return "", ""
		}
		if ch[0].Range().From != r.From {
			return "tiling-gap-first", fmt.Sprintf("%T [%d,%d): first child starts at %d", n, r.From, r.To, ch[0].Range().From)
		}
		if ch[len(ch)-1].Range().To != r.To {
			return "tiling-gap-last", fmt.Sprintf("%T [%d,%d): last child ends at %d", n, r.From, r.To, ch[len(ch)-1].Range().To)
		}
		for i, c := range ch {
			if Parent(c) != n {
				return "parent-pointer", fmt.Sprintf("child %d (%T) of %T has wrong parent", i, c, n)
			}
			if i > 0 && ch[i-1].Range().To != c.Range().From {
				return "tiling-gap-between", fmt.Sprintf("%T: child %d ends at %d, child %d starts at %d", n, i-1, ch[i-1].Range().To, i, c.Range().From)
			}
			if k, m := walk(c); k != "" {
				return k, m
			}
		}
		return "", ""
	}
	if k, m := walk(root); k != "" {
		return k, m
	}
	if got := leaves.String(); got != src[:root.To] {
		return "leaves-concat", fmt.Sprintf("leaves concatenate to %q, want %q", got, src[:root.To])
	}
	return "", ""
}

func c01Class(tree Tree, err error) string {
	var kinds uint32
	var walk func(n Node)
	walk = func(n Node) {
		switch n := n.(type) {
		case *Chunk:
			kinds |= 1
		case *Pipeline:
			kinds |= 2
			if n.Background {
				kinds |= 1 << 20
			}
		case *Form:
			kinds |= 4
		case *Redir:
			kinds |= 8
		case *Filter:
			kinds |= 16
		case *Compound:
			kinds |= 32
		case *Indexing:
			kinds |= 64
		case *Array:
			kinds |= 128
		case *Primary:
			kinds |= 1 << (8 + uint(n.Type))
		case *MapPair:
			kinds |= 1 << 21
		case *Sep:
			kinds |= 1 << 22
		}
		for _, c := range Children(n) {
			walk(c)
		}
	}
	walk(tree.Root)
	errs := UnpackErrors(err)
	msg := ""
	if len(errs) > 0 {
		msg = errs[0].Message
	}
	return fmt.Sprintf("%x/%d/%s", kinds, len(errs), msg)
}

// redirection-focused alphabet: left-hand fds, runs of redirection signs (valid and
// malformed), fd sources and close markers, so that the error paths of Redir.parse are reached
var c01Redir = []string{"a", "2", " ", "<", ">", "&", "-", "$x", "\n"}

func TestVerifC01(t *testing.T) {
	vk.Run(t, "C01", "exploration", func(c *vk.Ctx) {
		nb := vk.Pick(c, 5, 6)
		nt := vk.Pick(c, 4, 5)
		c.Rule(fmt.Sprintf("every string of <=%d symbols over the 16-symbol byte alphabet %q and every string of <=%d tokens over the 35-token alphabet %q, and every string of <=7 (thorough 8) tokens over the redirection alphabet {a 2 space < > & - $x newline}, length-lexicographic; class = (set of node kinds in the tree, number of errors, first error message); all cases with a distinct class count as distinct non-trivial", nb, c01Bytes, nt, c01Tokens))
		c.Assume("totality is observed as: Parse returns (a case running > 300 s is reported as non-termination) and does not panic")
		run := func(alpha []string, n int) {
			c.EnumSeqs(len(alpha), n, func(l *vk.Local, idx []int) {
				src := vk.Join(alpha, idx)
				var tree Tree
				var err error
				if p := vk.Try(func() { tree, err = Parse(Source{Name: "v", Code: src}, Config{}) }); p != "" {
					l.Case("panic")
					c.Violate("parse-panic:"+vk.PanicSite(p), fmt.Sprintf("Parse(%q) panicked: %s", src, p), src)
					return
				}
				if k, m := c01CheckTree(src, tree, err); k != "" {
					c.Violate(k, fmt.Sprintf("Parse(%q): %s", src, m), src)
				}
				l.Case(c01Class(tree, err))
				if len(idx) == n && idx[0] == 3 && idx[1] == 2 && idx[n-1] == 1 {
					c.Sample(src)
				}
			})
		}
		run(c01Bytes, nb)
		run(c01Tokens, nt)
		run(c01Redir, vk.Pick(c, 7, 8))
	})
}
