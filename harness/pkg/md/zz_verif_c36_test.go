//go:build verif

package md_test

import (
	"fmt"
	"html"
	"regexp"
	"sort"
	"strings"
	"sync"
	"sync/atomic"
	"testing"

	"src.elv.sh/pkg/md"
	"src.elv.sh/pkg/wcwidth"
	"src.elv.sh/pkg/zzverif/vk"
)

// Alphabet A: the block/inline token alphabet of the plan (shared with C35).
var c36AlphaA = []string{"a", "b", " ", "\n", "\n\n", "*", "_", "`", "# ", "> ", "- ",
	"1. ", "[", "](u)", "<", ">", "\\", "&amp;", "    ", "```"}

// Alphabet B: characters the formatter has to make an escaping decision about
// (line-start markers, fences, ordered-list look-alikes, link tails with
// parentheses/quotes/angle brackets, "!" before a link, character-reference
// spaces, emphasis delimiters next to punctuation).
var c36AlphaB = []string{"a", " ", "\n", "-", "+", "#", "~~~", "1", ".", ")", "(", "!", "[", "](",
	"<", ">", "\"", "&#32;", "*", "_", "\\", "`"}

// Alphabet C: inline raw HTML of every kind that could also open an HTML block
// (<a>, </a>, <!a>, <!--, <?), next to the whitespace forms the formatter
// itself writes (&NewLine;, &#32;), explored one token deeper.
var c36AlphaC = []string{"a", "<a>", " ", "\n", "&NewLine;", "&#32;", "<", ">", "!", "/", "?", "-", "\\"}

// Alphabet D: emphasis delimiters next to spaces, punctuation, word characters
// and their character-reference forms (the only way to write a space right
// inside an emphasis, or a word character right outside one that has
// punctuation inside), explored deep enough for two emphases in a row.
var c36AlphaD = []string{"a", " ", "*", "_", "!", "&#32;", "&#65;", "\n"}

// Alphabet E: code spans with inner spaces (two spaces on each side leave one
// in the content) and backquotes, and "!" (escaped or not) in front of links.
var c36AlphaE = []string{"a", " ", "  ", "`", "!", "\\!", "[", "](u)", "\n", "\\"}

// Alphabet F: fenced code blocks: backquote and tilde fences of length 3 and
// 4 (longer ones by concatenation), an info string with a backquote (which
// forces a tilde fence), and content lines that are themselves runs of fence
// characters, deep enough for opening fence + info + newline + fence-like
// content line + newline + closing fence.
var c36AlphaF = []string{"```", "~~~", "~~~~", "`", "~", "a", "\n", " a`b"}

var c36Widths = []int{0, 1, 5, 20}

// Family G: ordered-list-marker look-alikes at the start of a paragraph
// continuation line. Only a marker whose number is 1 - numerically: 1, 01,
// 001 - can interrupt a paragraph, so whether the formatter may leave such a
// line unescaped depends on the value of the number, not on its spelling.
// Markers are written plainly, with the punctuation backslash-escaped, and
// with the first digit as a character reference (the latter two are ways to
// write the literal text that parse as a paragraph line in every position).
var (
	c36GNumbers = []string{"1", "01", "001", "2", "02", "10", "0", "00"}
	c36GPuncts  = []string{".", ")"}
)

type c36GCase struct {
	doc    string
	widths []int
}

func c36GMarkers() []string {
	var ms []string
	for _, n := range c36GNumbers {
		for _, p := range c36GPuncts {
			ms = append(ms, n+p, n+"\\"+p, fmt.Sprintf("&#%d;%s%s", n[0], n[1:], p))
		}
	}
	return ms
}

// c36GCases lists (a) every marker form in ten fixed line contexts (after a
// paragraph line with and without following text, alone on the line, between
// two lines, at the start of the document, indented, inside a blockquote and a
// list item, and two marker lines in a row), at the standard widths; (b) every
// prose paragraph of 3 or 4 words over {aa, b} with one word replaced by a
// marker form, reflowed to every width from 1 to the length of the paragraph
// (so that every possible line break, in particular the one right before the
// marker, is taken).
func c36GCases() []c36GCase {
	var cases []c36GCase
	ms := c36GMarkers()
	for _, m := range ms {
		for _, d := range []string{
			"a\n" + m + " b", "a\n" + m, "a\n" + m + "\nb", "a\n" + m + " b\nc",
			m + " b", m, "a\n   " + m + " b",
			"> a\n> " + m + " b", "> a\n" + m + " b", "- a\n  " + m + " b", "1. a\n   " + m + " b",
		} {
			cases = append(cases, c36GCase{d, c36Widths})
		}
	}
	for _, m1 := range ms {
		for _, m2 := range ms {
			cases = append(cases, c36GCase{"a\n" + m1 + " b\n" + m2 + " c", c36Widths})
		}
	}
	fill := []string{"aa", "b"}
	for k := 3; k <= 4; k++ {
		for pos := 0; pos < k; pos++ {
			for bits := 0; bits < 1<<uint(k-1); bits++ {
				for _, m := range ms {
					words := make([]string, k)
					b := bits
					for i := range words {
						if i == pos {
							words[i] = m
							continue
						}
						words[i] = fill[b&1]
						b >>= 1
					}
					doc := strings.Join(words, " ")
					ws := []int{0}
					for w := 1; w <= len(doc); w++ {
						ws = append(ws, w)
					}
					cases = append(cases, c36GCase{doc, ws})
				}
			}
		}
	}
	return cases
}

// c36Scan is a Codec that looks at the parse of a document: which block and
// inline operations occur (coverage class, root-cause attribution) and whether
// the document uses one of the two documented unsupported features:
// (strong) emphasis nested in another (strong) emphasis, or (strong) emphasis
// following immediately after another (strong) emphasis.
type c36Scan struct {
	blocks, inlines uint32
	nested, consec  bool
	wantSig         bool // record sig (only needed to attribute a violation)
	sig             []string
}

func (s *c36Scan) Do(op md.Op) {
	s.blocks |= 1 << uint(op.Type)
	b := ""
	if s.wantSig {
		b = op.Type.String()
	}
	if op.Number != 0 && s.wantSig {
		b += fmt.Sprintf(" Number=%d", op.Number)
	}
	if op.Info != "" && s.wantSig {
		b += fmt.Sprintf(" Info=%q", op.Info)
	}
	if len(op.Lines) > 0 && s.wantSig {
		b += fmt.Sprintf(" Lines=%q", op.Lines)
	}
	if s.wantSig {
		s.sig = append(s.sig, b)
	}
	depth := 0
	prevEnd := false
	for _, in := range op.Content {
		s.inlines |= 1 << uint(in.Type)
		if s.wantSig {
			s.sig = append(s.sig, fmt.Sprintf(" %s %q %q %q", in.Type, in.Text, in.Dest, in.Alt))
		}
		switch in.Type {
		case md.OpEmphasisStart, md.OpStrongEmphasisStart:
			depth++
			if depth >= 2 {
				s.nested = true
			}
			if prevEnd {
				s.consec = true
			}
		case md.OpEmphasisEnd, md.OpStrongEmphasisEnd:
			depth--
		}
		prevEnd = in.Type == md.OpEmphasisEnd || in.Type == md.OpStrongEmphasisEnd
	}
}

func c36ScanOf(src string, wantSig bool) *c36Scan {
	s := &c36Scan{wantSig: wantSig}
	md.Render(src, s)
	return s
}

// c36Attr names, for a violation key, how the parse of the formatted text
// departs from the parse of the original: the op kinds that the output has more
// of than the original ("+OpHeading"); if there are none, the op kinds that
// the output has fewer of ("-OpHardLineBreak"); if both have the same counts, the kind of
// the first op that differs ("OpText-content", or "OpText-order" when the
// sequence of kinds differs). This depends on what went wrong, not on the
// context the construct happened to stand in.
func c36Attr(origSrc, outSrc string) string {
	orig, out := c36ScanOf(origSrc, true), c36ScanOf(outSrc, true)
	kind := func(sig []string, i int) string {
		if i >= len(sig) {
			return "end"
		}
		return strings.Fields(sig[i])[0]
	}
	kinds := func(sig []string) map[string]int {
		m := map[string]int{}
		for i := range sig {
			m[kind(sig, i)]++
		}
		return m
	}
	ko, kf := kinds(orig.sig), kinds(out.sig)
	diff := func(a, b map[string]int, sign string) string {
		var ks []string
		for k := range a {
			if a[k] > b[k] {
				ks = append(ks, sign+k)
			}
		}
		sort.Strings(ks)
		return strings.Join(ks, "")
	}
	if d := diff(kf, ko, "+"); d != "" {
		return d
	}
	if d := diff(ko, kf, "-"); d != "" {
		return d
	}
	n := len(orig.sig)
	if len(out.sig) > n {
		n = len(out.sig)
	}
	for i := 0; i < n; i++ {
		a, b := kind(orig.sig, i), kind(out.sig, i)
		if a != b {
			return a + "-order"
		}
		if orig.sig[i] != out.sig[i] {
			return a + "-content"
		}
	}
	return "same-ops"
}

var (
	c36Paragraph         = regexp.MustCompile(`(?s)<p>.*?</p>`)
	c36WhitespaceRun     = regexp.MustCompile(`[ \t\n]+`)
	c36BrWithWhitespaces = regexp.MustCompile(`[ \t\n]*<br />[ \t\n]*`)
	// everything the formatter can write as container markers at a line start
	c36Markers  = regexp.MustCompile(`^ *(?:(?:[-*>]|[0-9]{1,9}[.)]) *)*`)
	c36Link     = regexp.MustCompile(`\[.*\]\(.*\)`)
	c36CodeSpan = regexp.MustCompile("`.*`")
)

// c36ModWS makes HTML insensitive to whitespace inside paragraphs: leading and
// trailing whitespace of a paragraph is dropped, inner runs become one space,
// whitespace around a hard line break is dropped.
func c36ModWS(h string) string {
	return c36Paragraph.ReplaceAllStringFunc(h, func(p string) string {
		body := strings.Trim(p[3:len(p)-4], " \t\n")
		body = c36WhitespaceRun.ReplaceAllLiteralString(body, " ")
		body = c36BrWithWhitespaces.ReplaceAllLiteralString(body, "<br />")
		return "<p>" + body + "</p>"
	})
}

func c36HTML(s string) string { return md.RenderString(s, &md.HTMLCodec{}) }

// c36TooWide returns the first line of a reflowed text that is wider than w
// although it could have been broken: it has a space in its content (after
// the container markers) and contains no raw HTML, link or code span (which
// are kept on one line).
func c36TooWide(reflowed string, w int) (string, bool) {
	for _, line := range strings.Split(reflowed, "\n") {
		if wcwidth.Of(line) <= w {
			continue
		}
		content := line[len(c36Markers.FindString(line)):]
		switch {
		case !strings.Contains(content, " "):
		case strings.Contains(content, "<"):
		case c36Link.MatchString(content):
		case c36CodeSpan.MatchString(content):
		default:
			return line, true
		}
	}
	return "", false
}

type c36Finding struct {
	doc, msg string
}

type c36Findings struct {
	mu sync.Mutex
	m  map[string]c36Finding
	// documents not judged at all / not judged for line width
	unsupported, noWidth atomic.Int64
}

// add keeps, per key, the shortest (then lexicographically least) document, so
// that the reported counterexample does not depend on worker scheduling.
func (f *c36Findings) add(key, doc, msg string) {
	f.mu.Lock()
	defer f.mu.Unlock()
	old, ok := f.m[key]
	if !ok || len(doc) < len(old.doc) || (len(doc) == len(old.doc) && doc < old.doc) {
		f.m[key] = c36Finding{doc, msg}
	}
}

func c36OutFlags(src, out string) string {
	fl := ""
	if out == src {
		fl += "="
	}
	if strings.Contains(out, "\\") {
		fl += "b"
	}
	if strings.Contains(out, "&#") {
		fl += "n"
	}
	if strings.Contains(out, "&NewLine;") {
		fl += "l"
	}
	if strings.Contains(out, "---") {
		fl += "d"
	}
	if strings.Contains(out, "~~~") {
		fl += "t"
	}
	if strings.Contains(out, "](<") {
		fl += "a"
	}
	if strings.Contains(out, "* ") || strings.Contains(out, ") ") {
		fl += "p"
	}
	return fl
}

// c36One checks one document at the given widths (the first must be 0);
// returns the coverage class.
func c36One(c *vk.Ctx, l *vk.Local, fs *c36Findings, src string, widths []int) string {
	orig := c36ScanOf(src, false)
	documentedUnsupported := orig.nested || orig.consec
	noWidthJudgement := orig.blocks&(1<<uint(md.OpHeading)|1<<uint(md.OpCodeBlock)|1<<uint(md.OpHTMLBlock)) != 0
	htmlOrig := ""
	class := ""
	for _, w := range widths {
		codec := &md.FmtCodec{Width: w}
		var out string
		if p := vk.Try(func() { out = md.RenderString(src, codec) }); p != "" {
			fs.add("fmt-panic:"+vk.PanicSite(p), src, fmt.Sprintf("formatting %q with width %d panicked: %s", src, w, p))
			return "panic"
		}
		u := codec.Unsupported()
		if w == 0 {
			class = fmt.Sprintf("%x/%x/%v%v/%s", orig.blocks, orig.inlines, orig.nested, orig.consec, c36OutFlags(src, out))
			gotNested := u != nil && u.NestedEmphasisOrStrongEmphasis
			gotConsec := u != nil && u.ConsecutiveEmphasisOrStrongEmphasis
			if gotNested != orig.nested || gotConsec != orig.consec {
				fs.add("unsupported-flag-mismatch", src, fmt.Sprintf("document %q: FmtCodec.Unsupported() reports nested=%v consecutive=%v, but the parse of the document has nested=%v consecutive=%v (emphasis inside emphasis / emphasis start right after an emphasis end)", src, gotNested, gotConsec, orig.nested, orig.consec))
			}
		}
		if documentedUnsupported {
			fs.unsupported.Add(1)
			return class
		}
		if w == 0 {
			htmlOrig = c36HTML(src)
		}
		htmlOut := c36HTML(out)
		if w == 0 {
			if htmlOut != htmlOrig {
				fs.add("html-changed:"+c36Attr(src, out), src, fmt.Sprintf("document %q is formatted as %q, which renders as %q instead of %q", src, out, htmlOut, htmlOrig))
				return class // the reflowed outputs of a mis-formatted document are not judged
			}
		} else if htmlOut == htmlOrig {
			// identical, so also identical modulo whitespace
		} else if a, b := c36ModWS(htmlOrig), c36ModWS(htmlOut); a != b {
			fs.add("reflow-html-changed:"+c36Attr(src, out), src, fmt.Sprintf("document %q is reflowed to width %d as %q, which renders (modulo paragraph whitespace) as %q instead of %q", src, w, out, b, a))
			continue // a wrong output is not judged further
		}
		var again string
		if p := vk.Try(func() { again = md.RenderString(out, &md.FmtCodec{}) }); p != "" {
			fs.add("fmt-panic:"+vk.PanicSite(p), out, fmt.Sprintf("formatting %q (the width-%d output for %q) panicked: %s", out, w, src, p))
			return "panic"
		}
		if again != out {
			outScan := c36ScanOf(out, false)
			if ha := c36HTML(again); ha != htmlOut && !outScan.nested && !outScan.consec {
				// The formatter's own output is a document it does not preserve:
				// report that (the more basic failure) for the output as document.
				fs.add("html-changed:"+c36Attr(out, again), out, fmt.Sprintf("document %q (the width-%d output for %q) is formatted as %q, which renders as %q instead of %q", out, w, src, again, ha, htmlOut))
			} else {
				key := "fmt-not-idempotent"
				if w > 0 {
					key = "reflow-not-stable-under-fmt"
				}
				fs.add(key+":"+c36Attr(out, again), src, fmt.Sprintf("document %q is formatted with width %d as %q; formatting that again gives %q", src, w, out, again))
			}
		}
		if w > 0 && !noWidthJudgement {
			if line, bad := c36TooWide(out, w); bad {
				fs.add("reflow-line-too-wide", src, fmt.Sprintf("document %q reflowed to width %d gives %q: line %q is wider than %d although it has a space to break at and no HTML, link or code span", src, w, out, line, w))
			}
		}
	}
	if noWidthJudgement {
		fs.noWidth.Add(1)
	}
	return class
}

func TestVerifC36(t *testing.T) {
	vk.Run(t, "C36", "exploration", func(c *vk.Ctx) {
		// cmd/elvmdfmt and the upstream formatter tests both run with full entity support.
		saved := md.UnescapeHTML
		md.UnescapeHTML = html.UnescapeString
		defer func() { md.UnescapeHTML = saved }()

		na := vk.Pick(c, 4, 5)
		nb := vk.Pick(c, 4, 5)
		nc := vk.Pick(c, 5, 6)
		nd := vk.Pick(c, 6, 7)
		ne := vk.Pick(c, 5, 6)
		nf := vk.Pick(c, 6, 7)
		c.Rule(fmt.Sprintf("every document of <=%d tokens over the 20-token alphabet A %q, every document of <=%d tokens over the 22-token alphabet B %q every document of <=%d tokens over the 13-token alphabet C %q, every document of <=%d tokens over the 8-token alphabet D %q, every document of <=%d tokens over the 10-token alphabet E %q every document of <=%d tokens over the 8-token alphabet F %q, length-lexicographic, each formatted with widths %v and each output formatted once more; and family G (both tiers): every ordered-list-marker look-alike with number in %q and punctuation in %q, written plainly, with the punctuation backslash-escaped and with the first digit as a character reference, in 11 line contexts (after a paragraph line with/without following text, alone on the line, at the start of the document, indented, in a blockquote, after a blockquote line, in bullet and ordered list items) and every pair of them on two consecutive continuation lines at those widths, plus every paragraph of 3-4 words over {aa, b} with one word replaced by such a marker form reflowed to every width from 1 to the length of the paragraph; class = (set of block op types, set of inline op types, documented-unsupported flags, which escape forms the width-0 output uses)", na, c36AlphaA, nb, c36AlphaB, nc, c36AlphaC, nd, c36AlphaD, ne, c36AlphaE, nf, c36AlphaF, c36Widths, c36GNumbers, c36GPuncts))
		c.Assume("'renders to the same HTML' is observed with the package's own parser and HTMLCodec (their agreement with CommonMark is C35's subject), with md.UnescapeHTML = html.UnescapeString as in cmd/elvmdfmt",
			"documents with nested or consecutive (strong) emphasis - decided by the harness from the parse of the document, as documented on FmtUnsupported - are not judged",
			"line width is judged only for documents without headings, code blocks and HTML blocks, and only for lines that have a space in their content and no '<', link or code span, as in the upstream fuzz property",
			"tabs, invalid UTF-8 and literal <p> tags do not occur in the alphabets")
		fs := &c36Findings{m: map[string]c36Finding{}}
		run := func(alpha []string, n int) {
			c.EnumSeqs(len(alpha), n, func(l *vk.Local, idx []int) {
				src := vk.Join(alpha, idx)
				l.Case(c36One(c, l, fs, src, c36Widths))
				if len(idx) == n && idx[0] == 8%len(alpha) && idx[1] == 5 && idx[n-1] == 0 {
					c.Sample(src)
				}
			})
		}
		run(c36AlphaA, na)
		run(c36AlphaB, nb)
		run(c36AlphaC, nc)
		run(c36AlphaD, nd)
		run(c36AlphaE, ne)
		run(c36AlphaF, nf)
		gcases := c36GCases()
		c.Set("family_G_documents", len(gcases))
		c.Parallel(len(gcases), func(l *vk.Local, i int) {
			cl := c36One(c, l, fs, gcases[i].doc, gcases[i].widths)
			l.Case("G/" + cl)
			if i%997 == 0 {
				c.Sample(gcases[i].doc)
			}
		})
		c.Set("not_judged_documented_unsupported", fs.unsupported.Load())
		c.Set("width_not_judged_heading_code_html_block", fs.noWidth.Load())
		keys := make([]string, 0, len(fs.m))
		for k := range fs.m {
			keys = append(keys, k)
		}
		sort.Strings(keys)
		for _, k := range keys {
			c.Violate(k, fs.m[k].msg, fs.m[k].doc)
		}
	})
}
