//go:build verif

package md_test

// C35: Markdown rendering is total, and agrees with CommonMark on the
// documented supported subset.
//
// Bounded-exhaustive: every document that is a sequence of <= n tokens over a
// family's token alphabet (optionally after a fixed prefix) is rendered by the
// real md.RenderString(doc, &md.HTMLCodec{}) and by the CommonMark reference
// implementation (markdown-it-py, run as a pool of long-lived subprocesses,
// /verif/oracle/md_oracle.py); the two HTML outputs are compared after a
// symmetric normalisation. Documents that use one of the omissions listed in
// the package documentation are rendered (totality) but not compared.

import (
	"bufio"
	"encoding/json"
	"fmt"
	"html"
	"io"
	"os"
	"os/exec"
	"path/filepath"
	"regexp"
	"sort"
	"strconv"
	"strings"
	"sync"
	"testing"
	"time"
	"unicode/utf8"

	"src.elv.sh/pkg/md"
	"src.elv.sh/pkg/zzverif/vk"
)

// ---------------------------------------------------------------- families

type c35Family struct {
	name   string
	prefix string   // fixed text before the enumerated tokens
	alpha  []string // token alphabet
	q, t   int      // maximal number of tokens, quick / thorough
	judge  bool     // false: totality only (never sent to the oracle)
	// prune, if set, skips token sequences that only repeat another enumerated
	// document (it must depend on adjacent tokens only)
	prune func(alpha []string, idx []int) bool
}

// c35PruneRuns skips sequences in which two adjacent tokens are delimiter runs
// of the same character ("*" "**" is just the run "***", which is a token or a
// longer run of the same kind), two letters or two spaces.
func c35PruneRuns(alpha []string, idx []int) bool {
	for i := 1; i < len(idx); i++ {
		if alpha[idx[i-1]][0] == alpha[idx[i]][0] {
			return true
		}
	}
	return false
}

var c35Families = []c35Family{
	// The plan's alphabet: block and inline constructs mixed.
	{"mixed", "", []string{"a", "b", " ", "\n", "\n\n", "*", "_", "`", "# ", "> ", "- ", "1. ",
		"[", "](u)", "<", ">", "\\", "&amp;", "    ", "```"}, 4, 5, true, nil},
	// Emphasis, code spans, escapes, hard and soft breaks, with ASCII and
	// non-ASCII punctuation, symbols and spaces around the delimiter runs.
	{"inline", "", []string{"a", " ", "\n", "*", "**", "_", "__", "`", "``", ".", "(", "\\", "!", "[", "](u)",
		"é", "€", "\u00a0", "  \n", "&lt;"}, 4, 5, true, nil},
	// Delimiter runs of length 1-4 between words: long enough for run text run
	// text space text run, where the openers_bottom bookkeeping and the rule of
	// three interact (e.g. "**a*b c****").
	{name: "emphasisruns", alpha: []string{"a", " ", "*", "**", "***", "****", "_", "__"}, q: 7, t: 8, judge: true, prune: c35PruneRuns},
	// Link text: nesting, images, code spans and raw HTML inside brackets.
	{"links", "", []string{"a", "[", "![", "](u)", "]", "*", "`", "<", ">", "\\", "\n"}, 5, 6, true, nil},
	// Link and image tails after "[a](" : destination and title syntax.
	{"linktail", "[a](", []string{"a", " ", "\n", "<", ">", "\"", "'", "(", ")", "\\", "&amp;", "#", "]"}, 5, 6, true, nil},
	{"imagetail", "![a *b* c](", []string{"a", " ", "<", ">", "\"", "(", ")", "\\", ")*"}, 5, 6, true, nil},
	// Raw HTML, autolinks and HTML blocks after "<".
	{"angle", "<", []string{"a", "pre", "td", " ", "\n", "\n\n", "<", ">", "/", "!", "--", "?", "=", "\"", ":", "@", ".", "[CDATA[", "]]", "*", "\x1b"}, 4, 5, true, nil},
	// Inside an HTML block opened by <pre>: end conditions.
	{"htmlblock", "<pre>\n", []string{"a", "*a*", "\n", "\n\n", " ", "</pre", "</", "td", ">", "<", "-->", "?>", "> "}, 4, 5, true, nil},
	// Entity and numeric character references after "&".
	{"charref", "&", []string{"a", "amp", "lt", "quote", "quot", "#", "x", "X", "0", "3", "5", "7", "d", "8", "f", ";", "&", " ", "`", "\n", "\x00"}, 4, 5, true, nil},
	// Info strings of fenced code blocks: escapes, character references, words.
	{"fenceinfo", "```", []string{"a", "b", " ", "\\", "&amp;", "&#35;", "`", "~", "\n", "```", "*", "&lt"}, 4, 5, true, nil},
	// HTML blocks inside and next to containers.
	{"containerhtml", "", []string{"> ", "- ", "<a>", "<!--", "-->", "<td>", "</td>", "\n", "\n\n", "a", "  ", " "}, 4, 5, true, nil},
	// Whole lines: empty list items, blockquote prefixes and lines that are
	// blank only after the enclosing containers' markers are removed ("a list
	// item can begin with at most one blank line" inside containers).
	{"quotedlists", "", []string{"> -\n", "> 1.\n", ">\n", ">   a\n", "> a\n", "-\n", "  >\n", "  > a\n", "> > -\n", "> >\n", "\n"}, 4, 5, true, nil},
	// Block structure at the character level: markers with and without
	// spaces, indentation, fences, thematic breaks, lazy continuation.
	{"blocks", "", []string{"a", " ", "  ", "\n", "-", "+", "*", "1.", "2)", ">", "#", "~~~", "```", "---"}, 5, 6, true, nil},
	// Totality only: byte level, including tab, CR, NUL and invalid UTF-8.
	{"bytes", "", []string{"a", " ", "\n", "\t", "\r", "*", "_", "`", "[", "]", "(", ")", "<", ">", "!", "\\", "&", "#", ";", "-",
		"1", ".", "\x00", "\xff", "\xc3"}, 4, 5, false, nil},
	// Totality only: C01's byte alphabet.
	{"c01bytes", "", []string{"a", "$", "'", "\"", "\\", " ", "\n", "|", "(", ")", "[", "]", "{", "}", ">", "\xff"}, 5, 6, false, nil},
}

// ---------------------------------------------------------------- oracle pool

type c35Ref struct {
	flags string
	html  string
}

type c35Oracle struct {
	cmd *exec.Cmd
	in  *bufio.Writer
	wc  io.WriteCloser
	out *bufio.Reader
}

func c35OraclePaths() (python, script string) {
	python = os.Getenv("VERIF_MD_PYTHON")
	if python == "" {
		python = "/root/miniconda/bin/python"
	}
	dir := os.Getenv("VERIF_DIR")
	if dir == "" {
		dir = "/verif"
	}
	return python, filepath.Join(dir, "oracle", "md_oracle.py")
}

func c35StartOracle() (*c35Oracle, error) {
	python, script := c35OraclePaths()
	cmd := exec.Command(python, script)
	wc, err := cmd.StdinPipe()
	if err != nil {
		return nil, err
	}
	rc, err := cmd.StdoutPipe()
	if err != nil {
		return nil, err
	}
	if err := cmd.Start(); err != nil {
		return nil, err
	}
	o := &c35Oracle{cmd: cmd, in: bufio.NewWriterSize(wc, 1<<16), wc: wc, out: bufio.NewReaderSize(rc, 1<<16)}
	// handshake: one known document
	refs, err := o.render([]string{"*a*\n"})
	if err != nil {
		o.close()
		return nil, fmt.Errorf("handshake: %v", err)
	}
	if refs[0].html != "<p><em>a</em></p>\n" {
		o.close()
		return nil, fmt.Errorf("handshake: unexpected answer %q", refs[0].html)
	}
	return o, nil
}

func (o *c35Oracle) close() {
	o.wc.Close()
	o.cmd.Wait()
}

// render sends one batch and reads the answers. The worker reads the whole
// batch before it writes anything, so writing everything first cannot deadlock.
func (o *c35Oracle) render(docs []string) ([]c35Ref, error) {
	fmt.Fprintf(o.in, "%d\n", len(docs))
	for _, d := range docs {
		fmt.Fprintf(o.in, "%d\n", len(d))
		o.in.WriteString(d)
	}
	if err := o.in.Flush(); err != nil {
		return nil, err
	}
	refs := make([]c35Ref, len(docs))
	for i := range docs {
		head, err := o.out.ReadString('\n')
		if err != nil {
			return nil, fmt.Errorf("reading answer %d: %v", i, err)
		}
		f := strings.Fields(head)
		if len(f) != 2 {
			return nil, fmt.Errorf("bad answer header %q", head)
		}
		n, err := strconv.Atoi(f[1])
		if err != nil {
			return nil, fmt.Errorf("bad answer header %q", head)
		}
		buf := make([]byte, n)
		if _, err := io.ReadFull(o.out, buf); err != nil {
			return nil, fmt.Errorf("reading answer %d: %v", i, err)
		}
		refs[i] = c35Ref{flags: strings.Trim(f[0], "-"), html: string(buf)}
	}
	return refs, nil
}

// ---------------------------------------------------------------- judging

// The five entities the package documentation lists as supported.
var c35DocEntities = map[string]bool{"lt": true, "gt": true, "quote": true, "apos": true, "amp": true}

var (
	c35NamedRef   = regexp.MustCompile(`&([a-zA-Z0-9]+);`)
	c35NumericRef = regexp.MustCompile(`&#([0-9]{1,7}|[xX][0-9a-fA-F]{1,6});`)

	// Places where the reference implementation itself departs from the
	// CommonMark 0.31.2 text (each checked against the spec text and a second
	// implementation); documents that touch them are not judged.
	c35RefDeviations = []struct {
		why   string
		guard string // cheap necessary condition
		re    *regexp.Regexp
	}{
		// spec: paragraph content, info strings etc. are stripped of "spaces or
		// tabs" only; the reference strips all Unicode whitespace.
		{"reference-strips-unicode-whitespace", "\u00a0", regexp.MustCompile("(?:^|[ \\n`~>])\\x{a0}|\\x{a0}(?:$|[ \\n])")},
		// spec: a backslash before a non-punctuation character is a literal
		// backslash; the reference gives backslash-space a special role in link
		// destinations, keeps the space before a soft break, and lets
		// backslash-newline through into a link destination.
		{"reference-backslash-space", "\\ ", regexp.MustCompile(`\\ `)},
		{"reference-backslash-newline-in-link-destination", "\\\n", regexp.MustCompile(`(?s)\]\(.*\\\n`)},
		// spec 0.31.2 HTML block start condition 4 and declarations allow any
		// ASCII letter after "<!"; the reference's block rule wants upper case.
		{"reference-lowercase-declaration", "<!", regexp.MustCompile(`<![a-z]`)},
		// spec: a list item that begins with a blank line ends at the second
		// blank line but its list stays open; the reference starts a new list.
		{"reference-splits-list-after-empty-item", "\n", regexp.MustCompile(`(?:^|[ >\n])(?:[-+*]|[0-9]{1,9}[.)]) *\n[ >]*\n[ >]*\n`)},
		// spec: a block quote marker may be preceded by at most three spaces;
		// the reference accepts any indentation on continuation lines.
		{"reference-indented-quote-marker", "    ", regexp.MustCompile(`(?:^|\n)(?: {0,3}> ?)* {4,}>`)},
		// The plain-text rendering of a hard line break inside an image
		// description is not specified (cmark: space, commonmark.js: newline,
		// the reference: nothing); the reference also drops backslash escapes,
		// character references, code spans and raw HTML from the description
		// (spec: the plain string content of the description is used).
		{"unspecified-hard-break-in-image-description", "![", regexp.MustCompile(`!\[[^\]]*[ \\]\n`)},
		{"reference-drops-non-text-inlines-in-image-description", "![", regexp.MustCompile("(?s)!\\[.*[&\\\\`<].*\\]\\(")},
		// spec: flanking of a delimiter run is decided by the characters around
		// it in the paragraph; the reference parses an image description on its
		// own, so a run next to the brackets sees "end of text" instead.
		{"reference-parses-image-description-in-isolation", "![", regexp.MustCompile(`!\[[*_]|!\[[^\]]*[*_]\]`)},
		// ... and it parses link text up to the closing bracket only, so a run
		// right before "]" sees "end of text" after it.
		{"reference-parses-link-text-in-isolation", "]", regexp.MustCompile(`[*_]\]`)},
		// spec: HTML blocks of kinds 1-5 end at their end condition or with their
		// container; the reference also ends them at a blank line inside a list
		// item when that line is shorter than the item's indentation.
		{"reference-ends-html-block-at-blank-line-in-list-item", "<", regexp.MustCompile(`(?s)(?:[-+*]|[0-9][.)])[ \n].*<(?:!--|\?|pre|!\[CDATA\[|![A-Z]).*\n *\n`)},
		// spec: links may not contain other links at any depth; the reference
		// accepts a link around an image whose description contains a link.
		{"reference-link-in-image-in-link", "![", regexp.MustCompile(`(?s)\[.*!\[.*\[`)},
		// the reference's code span scanner caches "no closer of this length"
		// positions, and the look-ahead done for "[" corrupts that cache.
		{"reference-backtick-cache-after-bracket", "[", regexp.MustCompile("(?s)\\[[^`]*`+[^`]+`+[^`]+`")},
		// Indentation of continuation lines inside a multi-line code span or raw
		// HTML tag: cmark strips it while collecting paragraph lines, the
		// reference and elvish strip it only at soft breaks; the spec wording
		// ("removing initial and final spaces or tabs") does not settle it.
		{"unspecified-continuation-indent-inside-code-span", "`", regexp.MustCompile("(?s)`.*\\n +.*`")},
		{"unspecified-continuation-indent-inside-raw-html", "<", regexp.MustCompile(`(?s)<.*\n +.*>`)},
		// Which Unicode spaces end the first word (the language) of an info
		// string is not specified.
		{"unspecified-unicode-space-in-info-string", "\u00a0", regexp.MustCompile("(?:```|~~~)[^\\n]*\\x{a0}")},
	}
)

// c35NotJudged returns the reason why a document is outside the subset the
// documentation promises CommonMark behaviour for, or why the reference cannot
// be used for it ("" = it is judged).
func c35NotJudged(doc string, ref c35Ref) string {
	switch {
	case strings.Contains(doc, "\t"):
		return "omission:tab"
	case strings.Contains(doc, "\r"):
		return "omission:cr"
	case strings.Contains(ref.flags, "E"):
		return "reference-raised-exception"
	case strings.Contains(ref.flags, "S"):
		return "omission:setext-heading"
	case strings.Contains(ref.flags, "R"):
		return "omission:link-reference-definition"
	}
	if why := c35CharRefNotJudged(doc); why != "" {
		return why
	}
	for _, d := range c35RefDeviations {
		if strings.Contains(doc, d.guard) && d.re.MatchString(doc) {
			return d.why
		}
	}
	if c35LazyIndentedDeviation(doc) {
		return "reference-treats-indented-lazy-line-as-block-start"
	}
	// spec: a comment is "<!--", a string not including "-->", and "-->"; the
	// reference's pattern additionally refuses a body that ends in "-"
	// (e.g. "<!--<!---->", which cmark also reads as one comment).
	for rest := doc; ; {
		i := strings.Index(rest, "<!--")
		if i < 0 {
			break
		}
		rest = rest[i+4:]
		if k := strings.Index(rest, "-->"); k > 0 && rest[k-1] == '-' {
			return "reference-comment-body-ending-in-dash"
		}
	}
	return ""
}

// c35LazyIndentedDeviation recognises a lazy continuation line that is
// indented by four or more spaces and whose text looks like a block start
// ("    # ", "    *", "    ```", ...). By the spec such a line is paragraph
// continuation text (an indented code block cannot interrupt a paragraph, and
// with four spaces it is no other block start either). The reference evaluates
// its paragraph terminators with an indentation relative to the inner
// container, takes the line for a block start and closes the containers; it
// gets only the case of a single block quote right.
func c35LazyIndentedDeviation(doc string) bool {
	if !strings.Contains(doc, "\n    ") {
		return false
	}
	lines := strings.Split(doc, "\n")
	for i := 1; i < len(lines); i++ {
		cur := lines[i]
		ind := len(cur) - len(strings.TrimLeft(cur, " "))
		if ind < 4 || ind == len(cur) || !strings.ContainsRune("-*+0123456789#`~><_=", rune(cur[ind])) {
			continue
		}
		prev := lines[i-1]
		if strings.TrimSpace(prev) == "" {
			continue
		}
		nbq, nlist, listOffset := 0, 0, 0
		pos := 0
		for {
			sp := 0
			for pos+sp < len(prev) && prev[pos+sp] == ' ' && sp < 4 {
				sp++
			}
			if sp == 4 || pos+sp >= len(prev) {
				break
			}
			q := pos + sp
			if prev[q] == '>' {
				nbq++
				pos = q + 1
				if pos < len(prev) && prev[pos] == ' ' {
					pos++
				}
				continue
			}
			m := q
			if strings.IndexByte("-+*", prev[m]) >= 0 {
				m++
			} else {
				for m < len(prev) && m-q < 9 && prev[m] >= '0' && prev[m] <= '9' {
					m++
				}
				if m == q || m >= len(prev) || (prev[m] != '.' && prev[m] != ')') {
					break
				}
				m++
			}
			n := 0
			for m+n < len(prev) && prev[m+n] == ' ' {
				n++
			}
			if n == 0 && m < len(prev) {
				break
			}
			if n > 4 || n == 0 {
				n = 1
			}
			nlist++
			pos = m + n
			listOffset = pos
		}
		lazy := nbq > 0 || (nlist > 0 && ind < listOffset)
		if lazy && !(nbq == 1 && nlist == 0) {
			return true
		}
	}
	return false
}

func c35CharRefNotJudged(doc string) string {
	if !strings.Contains(doc, "&") {
		return ""
	}
	for _, m := range c35NamedRef.FindAllStringSubmatch(doc, -1) {
		// A name that is a real HTML5 entity but not in the documented list is
		// an omission; a name that is no entity at all is plain text in
		// CommonMark and is judged. html.UnescapeString knows the HTML5 list.
		if !c35DocEntities[m[1]] && html.UnescapeString(m[0]) != m[0] {
			return "omission:entity-outside-supported-set"
		}
	}
	for _, m := range c35NumericRef.FindAllStringSubmatch(doc, -1) {
		var v int64
		if m[1][0] == 'x' || m[1][0] == 'X' {
			v, _ = strconv.ParseInt(m[1][1:], 16, 64)
		} else {
			v, _ = strconv.ParseInt(m[1], 10, 64)
		}
		// CommonMark replaces only U+0000 and invalid code points (surrogates,
		// > U+10FFFF); the reference implementation additionally replaces
		// control characters and non-characters.
		if (v >= 1 && v <= 8) || v == 0xb || (v >= 0xe && v <= 0x1f) || (v >= 0x7f && v <= 0x9f) ||
			(v >= 0xfdd0 && v <= 0xfdef) || (v <= 0x10ffff && (v&0xffff) >= 0xfffe) {
			return "reference-replaces-control-character-references"
		}
	}
	return ""
}

// c35OracleDoc is what the reference is given: the document itself, with the
// final line terminated. CommonMark defines a line as ending "with a line
// ending or the end of file", so this does not change the meaning, and it
// keeps clear of the reference's handling of an unterminated last line.
func c35OracleDoc(doc string) string {
	if doc == "" || strings.HasSuffix(doc, "\n") {
		return doc
	}
	return doc + "\n"
}

// href/src attributes as both renderers write them
var c35URLAttr = regexp.MustCompile(`<(?:a href|img src)="[^"]*"`)

var c35BlankTail = regexp.MustCompile(`(?:\n *)+(</li>|</blockquote>|$)`)

// c35Normalise removes the serialisation differences that carry no meaning:
// the newline after <li> and <blockquote> (elvish always writes one, the
// reference omits it before an empty item / empty quote), and blank space
// before the end of a container or of the output (trailing blank lines of an
// unclosed HTML block are kept by some implementations and dropped by others),
// and non-ASCII bytes in href/src (elvish writes them raw, the reference
// percent-encodes them; browsers treat both alike).
func c35Normalise(s string) string {
	if !utf8.ValidString(s) || strings.IndexFunc(s, func(r rune) bool { return r >= 0x80 }) >= 0 {
		s = c35URLAttr.ReplaceAllStringFunc(s, func(m string) string {
			var sb strings.Builder
			for i := 0; i < len(m); i++ {
				if m[i] >= 0x80 {
					fmt.Fprintf(&sb, "%%%02X", m[i])
				} else {
					sb.WriteByte(m[i])
				}
			}
			return sb.String()
		})
	}
	s = strings.ReplaceAll(s, "<li>\n", "<li>")
	s = strings.ReplaceAll(s, "<blockquote>\n", "<blockquote>")
	return c35BlankTail.ReplaceAllString(s, "$1")
}

type c35Item struct {
	kind  string // "text", "<name>", "</name>", "raw-html" (inline), "html-block"
	raw   string
	block bool
}

func c35IsLetter(b byte) bool { return (b >= 'a' && b <= 'z') || (b >= 'A' && b <= 'Z') }

var c35BlockTags = map[string]bool{"p": true, "h1": true, "h2": true, "h3": true, "h4": true, "h5": true, "h6": true,
	"ul": true, "ol": true, "li": true, "blockquote": true, "pre": true, "hr": true}
var c35InlineTags = map[string]bool{"em": true, "strong": true, "code": true, "a": true, "img": true, "br": true}

// c35Items splits rendered HTML into the elements the renderers generate
// (recognised by the exact forms they are written in), inline raw HTML, HTML
// blocks and text runs. It only has to name the place where two outputs
// diverge; it is not a validating parser.
func c35Items(s string) []c35Item {
	var items []c35Item
	inline := false // inside <p> or <hN>
	i := 0
	for i < len(s) {
		if s[i] == '<' && i+1 < len(s) && (c35IsLetter(s[i+1]) || (s[i+1] == '/' && i+2 < len(s) && c35IsLetter(s[i+2]))) {
			j := i + 1
			closing := s[j] == '/'
			if closing {
				j++
			}
			k := j
			for k < len(s) && (c35IsLetter(s[k]) || (s[k] >= '0' && s[k] <= '9')) {
				k++
			}
			name := s[j:k]
			end := strings.IndexAny(s[k:], "<>")
			if end < 0 {
				end = len(s)
			} else if s[k+end] == '<' {
				end += k // unterminated tag: stop before the next one
			} else {
				end += k + 1
			}
			generated := false
			switch {
			case c35BlockTags[name] && !inline:
				generated = s[k:end] == ">" || (name == "hr" && s[k:end] == " />") || (name == "ol" && strings.HasPrefix(s[k:], ` start="`))
			case closing && inline && c35BlockTags[name] && name != "li" && name != "ul":
				generated = s[k:end] == ">" // </p>, </hN>
			case c35InlineTags[name]:
				generated = name != "a" || closing || strings.HasPrefix(s[k:], ` href="`)
			}
			switch {
			case generated && c35BlockTags[name]:
				if name == "p" || name[0] == 'h' && name != "hr" {
					inline = !closing
				}
				items = append(items, c35Item{kind: s[i:k] + ">", raw: s[i:end], block: true})
			case generated:
				items = append(items, c35Item{kind: s[i:k] + ">", raw: s[i:end]})
			case inline:
				items = append(items, c35Item{kind: "raw-html", raw: s[i:end]})
			default:
				items = append(items, c35Item{kind: "html-block", raw: s[i:end], block: true})
			}
			i = end
			continue
		}
		j := i + 1
		for j < len(s) && s[j] != '<' {
			j++
		}
		items = append(items, c35Item{kind: "text", raw: s[i:j]})
		i = j
	}
	// merge html-block runs (tag and text pieces outside any paragraph)
	var out []c35Item
	depthPre := false
	for _, it := range items {
		if it.kind == "<pre>" {
			depthPre = true
		} else if it.kind == "</pre>" {
			depthPre = false
		}
		if it.kind == "text" && !depthPre && strings.TrimSpace(it.raw) == "" && !c35InText(out) {
			continue // newline between blocks
		}
		if (it.kind == "html-block" || (it.kind == "text" && !depthPre && !c35InText(out))) && len(out) > 0 && out[len(out)-1].kind == "html-block" {
			out[len(out)-1].raw += it.raw
			continue
		}
		if it.kind == "text" && !depthPre && !c35InText(out) {
			it.kind, it.block = "html-block", true
		}
		out = append(out, it)
	}
	return out
}

// c35InText reports whether the items so far end inside a paragraph/heading.
func c35InText(items []c35Item) bool {
	for i := len(items) - 1; i >= 0; i-- {
		if items[i].block {
			k := items[i].kind
			return k == "<p>" || (len(k) == 4 && k[1] == 'h' && k[2] >= '1' && k[2] <= '6')
		}
	}
	return false
}

func c35Unit(s string) string {
	if s == "" {
		return "END"
	}
	if s[0] == '&' {
		if j := strings.IndexByte(s, ';'); j > 0 && j < 10 {
			return s[:j+1]
		}
	}
	r, _ := utf8.DecodeRuneInString(s)
	switch {
	case r == ' ':
		return "SP"
	case r == '\n':
		return "NL"
	case r < 0x20 || r >= 0x7f:
		return fmt.Sprintf("U+%04X", r)
	case c35IsLetter(byte(r)) || (r >= '0' && r <= '9'):
		return "alnum"
	}
	return string(r)
}

// c35FirstDiff returns the index of the first position at which the two item
// lists differ, and the items there ("END" past the end of a list).
func c35FirstDiff(a, b []c35Item) (i int, x, y c35Item) {
	for i = 0; ; i++ {
		x, y = c35Item{kind: "END"}, c35Item{kind: "END"}
		if i < len(a) {
			x = a[i]
		}
		if i < len(b) {
			y = b[i]
		}
		if x.kind == "END" && y.kind == "END" {
			return
		}
		if x.raw != y.raw || x.kind != y.kind {
			return
		}
	}
}

func c35Opens(kind string) bool {
	return kind == "html-block" || (strings.HasPrefix(kind, "<") && !strings.HasPrefix(kind, "</"))
}

var c35SchemeRe = regexp.MustCompile(`^[a-zA-Z][a-zA-Z0-9+.-]{1,31}:`)

// c35Construct names the source construct behind the output item items[i], as
// far as cheap inspection of the item, its neighbours and the (1-minimal)
// document can tell. It is the "cause class" part of a violation key: two
// divergences share a key only if they also agree on it.
func c35Construct(doc string, items []c35Item, i int) string {
	if i >= len(items) {
		return "END"
	}
	it := items[i]
	switch it.kind {
	case "text":
		return "text(" + c35Unit(it.raw) + ")"
	case "<a>":
		text := ""
		if i+2 < len(items) && items[i+1].kind == "text" && items[i+2].kind == "</a>" {
			text = html.UnescapeString(items[i+1].raw)
		}
		switch {
		case text != "" && strings.HasPrefix(it.raw, `<a href="mailto:`) && strings.Contains(doc, "<"+text+">"):
			// the known weak spot of the scanner is a local part whose first
			// character also opens a raw-HTML construct
			if strings.ContainsRune("!?/", rune(text[0])) {
				return "email-autolink(local-part-starts-with-[!?/])"
			}
			return "email-autolink(other)"
		case text != "" && c35SchemeRe.MatchString(text) && strings.Contains(doc, "<"+text+">"):
			return "uri-autolink"
		case strings.Contains(it.raw, ` title="`):
			return "inline-link(with-title)"
		}
		return "inline-link"
	case "<img>":
		if strings.Contains(it.raw, ` title="`) {
			return "image(with-title)"
		}
		return "image"
	case "raw-html", "html-block":
		r := strings.TrimLeft(it.raw, " ")
		low := strings.ToLower(r)
		sub := "tag"
		switch {
		case strings.HasPrefix(r, "<!--"):
			sub = "comment"
		case strings.HasPrefix(r, "<?"):
			sub = "processing-instruction"
		case strings.HasPrefix(r, "<![CDATA["):
			sub = "cdata"
		case strings.HasPrefix(r, "<!"):
			sub = "declaration"
		case strings.HasPrefix(low, "<pre") || strings.HasPrefix(low, "<script") || strings.HasPrefix(low, "<style") || strings.HasPrefix(low, "<textarea"):
			sub = "pre-script-style-textarea"
		case strings.HasPrefix(r, "</"):
			sub = "closing-tag"
		case !strings.HasPrefix(r, "<"):
			sub = "text"
		}
		return it.kind + "(" + sub + ")"
	case "<ul>", "<ol>":
		// an empty first item is its own class (marker followed by nothing)
		if i+2 < len(items) && items[i+1].kind == "<li>" && items[i+2].kind == "</li>" {
			return it.kind + "(empty-item)"
		}
		if it.kind == "<ol>" && strings.Contains(it.raw, "start=") {
			return "<ol>(start-not-1)"
		}
	}
	return it.kind
}

// c35Before names the nearest element before position i (the context in which
// the divergence happens); blockOnly restricts it to block-level items.
func c35Before(items []c35Item, i int, blockOnly bool) string {
	for k := min(i, len(items)) - 1; k >= 0; k-- {
		if items[k].kind == "text" || (blockOnly && !items[k].block) {
			continue
		}
		return items[k].kind
	}
	return "START"
}

var c35AttrRe = regexp.MustCompile(` ([a-z]+)="[^"]*$`)

// c35DiffKey names the first point at which two normalised outputs diverge,
// together with a cause class taken from the constructs involved and their
// context, so that two unrelated root causes are unlikely to share a key:
//
//	blocks:...   the block structure differs: which block element one side
//	             opens that the other does not (kind of HTML block, empty list
//	             item, ...) and after which block element
//	inline:...   the same blocks, but one side has an inline element where the
//	             other has text or another element; elements are named by their
//	             source construct (uri-autolink, email-autolink(...), inline-link,
//	             image, raw-html(comment), ...)
//	attributes-of:<x>:<attr>, content-of:...   same element, different details
//	text:in:<x>:...   same elements, text differs: enclosing element and the
//	             first differing character or entity on each side
func c35DiffKey(doc, got, want string) string {
	a, b := c35Items(got), c35Items(want)
	var ab, bb []c35Item
	for _, it := range a {
		if it.block {
			ab = append(ab, it)
		}
	}
	for _, it := range b {
		if it.block {
			bb = append(bb, it)
		}
	}
	// compare block skeletons by kind only
	ak, bk := make([]c35Item, len(ab)), make([]c35Item, len(bb))
	for i, it := range ab {
		ak[i] = c35Item{kind: it.kind, raw: it.kind}
	}
	for i, it := range bb {
		bk[i] = c35Item{kind: it.kind, raw: it.kind}
	}
	if i, x, y := c35FirstDiff(ak, bk); x.kind != y.kind {
		// an extra block on one side is named without what happens to follow it
		xo, yo := c35Opens(x.kind), c35Opens(y.kind)
		after := ":after:" + c35Before(ab, i, true)
		switch {
		case xo && !yo:
			return "blocks:elvish-opens:" + c35Construct(doc, ab, i) + after
		case yo && !xo:
			return "blocks:commonmark-opens:" + c35Construct(doc, bb, i) + after
		}
		return "blocks:elvish:" + c35Construct(doc, ab, i) + "/commonmark:" + c35Construct(doc, bb, i) + after
	}
	i, x, y := c35FirstDiff(a, b)
	if x.kind != y.kind {
		return "inline:elvish:" + c35Construct(doc, a, i) + "/commonmark:" + c35Construct(doc, b, i) + ":in:" + c35Before(a, i, false)
	}
	if x.kind != "text" {
		if x.kind == "html-block" || x.kind == "raw-html" {
			return "content-of:elvish:" + c35Construct(doc, a, i) + "/commonmark:" + c35Construct(doc, b, i)
		}
		j := 0
		for j < len(x.raw) && j < len(y.raw) && x.raw[j] == y.raw[j] {
			j++
		}
		attr := "?"
		if m := c35AttrRe.FindStringSubmatch(x.raw[:j]); m != nil {
			attr = m[1]
		} else if strings.HasSuffix(x.raw[:j], " ") || j >= len(x.raw) || j >= len(y.raw) {
			attr = "presence"
		}
		return "attributes-of:" + c35Construct(doc, a, i) + ":" + attr
	}
	j := 0
	for j < len(x.raw) && j < len(y.raw) && x.raw[j] == y.raw[j] {
		j++
	}
	// One text run is a prefix of the other: the shorter side goes on with an
	// element where the longer side goes on with text. That is an element/text
	// divergence and is keyed like one (e.g. "x<!@a>" like "<!@a>").
	if j == len(y.raw) && j < len(x.raw) && i+1 < len(b) && c35Opens(b[i+1].kind) && !b[i+1].block {
		return "inline:elvish:text(" + c35Unit(x.raw[j:]) + ")/commonmark:" + c35Construct(doc, b, i+1) + ":in:" + c35Before(a, i, false)
	}
	if j == len(x.raw) && j < len(y.raw) && i+1 < len(a) && c35Opens(a[i+1].kind) && !a[i+1].block {
		return "inline:elvish:" + c35Construct(doc, a, i+1) + "/commonmark:text(" + c35Unit(y.raw[j:]) + "):in:" + c35Before(a, i, false)
	}
	// back up to the start of an entity or UTF-8 sequence
	for k := j; k > 0 && k > j-8; k-- {
		if x.raw[k-1] == ';' {
			break
		}
		if x.raw[k-1] == '&' {
			j = k - 1
			break
		}
	}
	for j > 0 && j < len(x.raw) && !utf8.RuneStart(x.raw[j]) {
		j--
	}
	key := "text:in:" + c35Before(a, i, false) + ":elvish:" + c35Unit(x.raw[j:]) + "/commonmark:" + c35Unit(y.raw[min(j, len(y.raw)):])
	if r, _ := utf8.DecodeRuneInString(x.raw[j:]); j < len(x.raw) && (r < 0x20 || r >= 0x7f) && r != '\n' && strings.ContainsRune(doc, r) {
		key += ":literal-in-source"
	}
	return key
}

var c35TagBits = map[string]int{"p": 0, "h1": 1, "h2": 1, "h3": 1, "h4": 1, "h5": 1, "h6": 1, "em": 2, "strong": 3, "code": 4,
	"pre": 5, "blockquote": 6, "ul": 7, "ol": 8, "li": 9, "a": 10, "img": 11, "br": 12, "hr": 13}
var c35TagNames = []string{"p", "h", "em", "strong", "code", "pre", "bq", "ul", "ol", "li", "a", "img", "br", "hr", "raw", "esc"}

// c35Shape is the behaviour class of a rendering: which elements occur.
func c35Shape(out string) string {
	bits := 0
	for i := 0; i+1 < len(out); i++ {
		if out[i] == '&' {
			bits |= 1 << 15
		}
		if out[i] != '<' || !c35IsLetter(out[i+1]) {
			continue
		}
		j := i + 1
		for j < len(out) && (c35IsLetter(out[j]) || (out[j] >= '0' && out[j] <= '9')) {
			j++
		}
		if b, ok := c35TagBits[out[i+1:j]]; ok {
			bits |= 1 << b
		} else {
			bits |= 1 << 14
		}
	}
	var sb strings.Builder
	for b, n := range c35TagNames {
		if bits&(1<<b) != 0 {
			sb.WriteString(n)
			sb.WriteByte(',')
		}
	}
	return sb.String()
}

// ---------------------------------------------------------------- run state

type c35Finding struct {
	doc, msg string
}

type c35State struct {
	c    *vk.Ctx
	mu   sync.Mutex
	best map[string]c35Finding // violation key -> shortest counterexample
	more map[string][]string   // violation key -> a few more counterexamples (dump only)
	cnt  map[string]int64
	pool chan *c35Oracle
	dead error

	// differing documents of the family being explored: token index sequence
	// (one byte per token) -> violation key
	diffs  map[string]string
	intern map[string]string
}

func (st *c35State) report(key, doc, msg string) {
	st.mu.Lock()
	defer st.mu.Unlock()
	if st.more != nil && len(st.more[key]) < 12 {
		st.more[key] = append(st.more[key], doc)
	}
	old, ok := st.best[key]
	if !ok || c35Simpler(doc, old.doc) {
		st.best[key] = c35Finding{doc, msg}
	}
}

// c35Simpler orders counterexamples: shorter first, then those without control
// characters, then lexicographically (deterministic whatever the worker
// interleaving was).
func c35Simpler(a, b string) bool {
	if len(a) != len(b) {
		return len(a) < len(b)
	}
	ctl := func(s string) bool {
		return strings.IndexFunc(s, func(r rune) bool { return r < 0x20 && r != '\n' }) >= 0
	}
	if ca, cb := ctl(a), ctl(b); ca != cb {
		return cb
	}
	return a < b
}

func c35Render(doc string) (out, pan string) {
	pan = vk.Try(func() { out = md.RenderString(doc, &md.HTMLCodec{}) })
	return
}

type c35Pending struct {
	doc, got, pan string
	seq           string // token index sequence, one byte per token
	enumerated    bool   // false: corpus document, reported without minimisation
}

func c35Message(doc, got, want string) string {
	return fmt.Sprintf("document %q: elvish renders %q, CommonMark (markdown-it-py, lists loose) renders %q", doc, got, want)
}

// judgeBatch compares one batch with the reference and accounts every case.
func (st *c35State) judgeBatch(l *vk.Local, fam string, o *c35Oracle, batch []c35Pending, local map[string]int64) {
	var docs []string
	var at []int
	for i, p := range batch {
		if p.pan == "" && o != nil && utf8.ValidString(p.doc) {
			docs = append(docs, c35OracleDoc(p.doc))
			at = append(at, i)
		}
	}
	refs := make([]*c35Ref, len(batch))
	if len(docs) > 0 {
		rs, err := o.render(docs)
		if err != nil {
			st.mu.Lock()
			if st.dead == nil {
				st.dead = err
			}
			st.mu.Unlock()
		} else {
			for k, i := range at {
				refs[i] = &rs[k]
			}
		}
	}
	for i, p := range batch {
		if p.pan != "" {
			st.report("panic:"+vk.PanicSite(p.pan), p.doc, fmt.Sprintf("md.RenderString(%q, &md.HTMLCodec{}) panicked: %s", p.doc, p.pan))
			l.Case(fam + "|panic")
			continue
		}
		shape := c35Shape(p.got)
		if refs[i] == nil {
			why := "totality-only"
			if !utf8.ValidString(p.doc) {
				why = "invalid-utf8"
			}
			local["totality_only:"+why]++
			l.Case(fam + "|T|" + shape)
			continue
		}
		ref := *refs[i]
		if why := c35NotJudged(p.doc, ref); why != "" {
			local["not_judged:"+why]++
			l.Case(fam + "|N:" + why + "|" + shape)
			continue
		}
		local["compared_with_reference"]++
		if strings.Contains(ref.flags, "T") {
			local["compared_with_reference:tight_list_rendered_loose"]++
		}
		got, want := c35Normalise(p.got), c35Normalise(ref.html)
		if got != want {
			key := "differs:" + c35DiffKey(p.doc, got, want)
			if p.enumerated {
				st.mu.Lock()
				if k, ok := st.intern[key]; ok {
					key = k
				} else {
					st.intern[key] = key
				}
				st.diffs[p.seq] = key
				st.mu.Unlock()
			} else {
				st.report(key, p.doc, c35Message(p.doc, p.got, ref.html))
			}
			l.Case(fam + "|X|" + shape)
			continue
		}
		l.Case(fam + "|=" + ref.flags + "|" + shape)
	}
}

func (st *c35State) mergeCounts(local map[string]int64) {
	st.mu.Lock()
	for k, v := range local {
		st.cnt[k] += v
	}
	st.mu.Unlock()
}

// explore enumerates one family: all token sequences of length 0..n.
func (st *c35State) explore(f c35Family, n int) {
	c := st.c
	ns := len(f.alpha)
	pl := min(2, n)
	// shards: one for all sequences shorter than pl, then one per pl-prefix
	var shards [][]int
	shards = append(shards, nil)
	if pl > 0 {
		idx := make([]int, pl)
		for {
			shards = append(shards, append([]int{}, idx...))
			i := pl - 1
			for i >= 0 {
				idx[i]++
				if idx[i] < ns {
					break
				}
				idx[i] = 0
				i--
			}
			if i < 0 {
				break
			}
		}
	}
	const batchSize = 2048
	var watched sync.Map
	c.Parallel(len(shards), func(l *vk.Local, si int) {
		if _, ok := watched.LoadOrStore(l, true); !ok {
			c.Watch(l)
		}
		if c.IsCapped() && c.TimeUp() {
			return
		}
		var o *c35Oracle
		if f.judge && st.pool != nil {
			o = <-st.pool
			defer func() { st.pool <- o }()
		}
		local := map[string]int64{}
		defer st.mergeCounts(local)
		batch := make([]c35Pending, 0, batchSize)
		flush := func() {
			st.judgeBatch(l, f.name, o, batch, local)
			batch = batch[:0]
		}
		one := func(idx []int) {
			if f.prune != nil && f.prune(f.alpha, idx) {
				return
			}
			doc := f.prefix + vk.Join(f.alpha, idx)
			l.Begin(doc)
			got, pan := c35Render(doc)
			l.End()
			seq := make([]byte, len(idx))
			for i, v := range idx {
				seq[i] = byte(v)
			}
			batch = append(batch, c35Pending{doc: doc, got: got, pan: pan, seq: string(seq), enumerated: true})
			if len(batch) == batchSize {
				flush()
			}
		}
		if si == 0 {
			for ln := 0; ln < pl; ln++ {
				c35EachSeq(ns, make([]int, ln), 0, one)
			}
		} else {
			pre := shards[si]
			for ln := pl; ln <= n; ln++ {
				if c.TimeUp() {
					c.Capped(fmt.Sprintf("time budget reached in family %s at length %d", f.name, ln))
					break
				}
				buf := make([]int, ln)
				copy(buf, pre)
				c35EachSeq(ns, buf, pl, one)
			}
		}
		flush()
	})
	st.reportMinimal(f)
}

// reportMinimal reports, of the differing documents of a family, those that
// are 1-minimal: deleting any single token gives a document that does not
// differ (it agrees or is not judged). A longer document that contains a
// shorter counterexample almost always fails for the same reason and would
// only multiply the violation keys; it is counted, not reported.
func (st *c35State) reportMinimal(f c35Family) {
	var minimal []string
	for seq := range st.diffs {
		isMin := true
		for i := 0; i < len(seq) && isMin; i++ {
			if _, ok := st.diffs[seq[:i]+seq[i+1:]]; ok {
				isMin = false
			}
		}
		if isMin {
			minimal = append(minimal, seq)
		}
	}
	st.cnt["differences"] += int64(len(st.diffs))
	st.cnt["differences_1minimal"] += int64(len(minimal))
	sort.Strings(minimal)
	if len(minimal) > 0 && st.dead == nil {
		docs := make([]string, len(minimal))
		odocs := make([]string, len(minimal))
		for i, seq := range minimal {
			idx := make([]int, len(seq))
			for j := range seq {
				idx[j] = int(seq[j])
			}
			docs[i] = f.prefix + vk.Join(f.alpha, idx)
			odocs[i] = c35OracleDoc(docs[i])
		}
		o := <-st.pool
		refs, err := o.render(odocs)
		st.pool <- o
		if err != nil {
			st.dead = err
			return
		}
		for i, seq := range minimal {
			got, _ := c35Render(docs[i])
			st.report(st.diffs[seq], docs[i], c35Message(docs[i], got, refs[i].html))
		}
	}
	st.diffs = map[string]string{}
}

// c35EachSeq calls f for every assignment of buf[from:] over ns symbols.
func c35EachSeq(ns int, buf []int, from int, f func([]int)) {
	for i := from; i < len(buf); i++ {
		buf[i] = 0
	}
	for {
		f(buf)
		i := len(buf) - 1
		for i >= from {
			buf[i]++
			if buf[i] < ns {
				break
			}
			buf[i] = 0
			i--
		}
		if i < from {
			return
		}
	}
}

// ---------------------------------------------------------------- spec corpus

type c35SpecCase struct {
	Markdown string `json:"markdown"`
	HTML     string `json:"html"`
	Example  int    `json:"example"`
	Section  string `json:"section"`
}

// specCorpus runs the CommonMark spec examples shipped with elvish through the
// same pipeline, and uses them to validate the oracle itself: for an example
// without a tight list the oracle must reproduce the spec's HTML.
func (st *c35State) specCorpus() {
	c := st.c
	repo := os.Getenv("VERIF_REPO")
	if repo == "" {
		repo = "/repo"
	}
	data, err := os.ReadFile(filepath.Join(repo, "pkg", "md", "spec", "spec.json"))
	if err != nil {
		fmt.Printf("NOTE property=C35 spec corpus not readable (%v); skipped\n", err)
		c.Set("spec_examples", 0)
		return
	}
	var cases []c35SpecCase
	if err := json.Unmarshal(data, &cases); err != nil {
		fmt.Printf("NOTE property=C35 spec corpus not parsable (%v); skipped\n", err)
		return
	}
	o := <-st.pool
	defer func() { st.pool <- o }()
	docs := make([]string, len(cases))
	for i, tc := range cases {
		docs[i] = tc.Markdown
	}
	refs, err := o.render(docs)
	if err != nil {
		st.dead = err
		return
	}
	disagree := 0
	for i, tc := range cases {
		if !strings.Contains(refs[i].flags, "T") && !strings.Contains(refs[i].flags, "E") &&
			c35Normalise(refs[i].html) != c35Normalise(tc.HTML) {
			disagree++
			fmt.Printf("NOTE property=C35 oracle disagrees with CommonMark spec example %d (%s): %q -> %q, spec %q\n",
				tc.Example, tc.Section, tc.Markdown, refs[i].html, tc.HTML)
		}
	}
	c.Set("spec_examples", len(cases))
	c.Set("spec_examples_where_oracle_differs_from_spec", disagree)
	if disagree > 0 {
		c.Capped("the reference implementation does not reproduce the CommonMark spec examples; its verdicts are not trusted")
	}
	l := vk.NewLocal()
	local := map[string]int64{}
	var batch []c35Pending
	for _, tc := range cases {
		got, pan := c35Render(tc.Markdown)
		batch = append(batch, c35Pending{doc: tc.Markdown, got: got, pan: pan})
	}
	st.judgeBatch(l, "spec", o, batch, local)
	c.Merge(l)
	st.mergeCounts(local)
}

// ---------------------------------------------------------------- the check

func TestVerifC35(t *testing.T) {
	vk.Run(t, "C35", "exploration", func(c *vk.Ctx) {
		st := &c35State{c: c, best: map[string]c35Finding{}, cnt: map[string]int64{},
			diffs: map[string]string{}, intern: map[string]string{}}
		if os.Getenv("VERIF_C35_DUMP") != "" {
			st.more = map[string][]string{}
		}
		var desc []string
		for _, f := range c35Families {
			n := vk.Pick(c, f.q, f.t)
			mode := "compared with the reference"
			if !f.judge {
				mode = "totality only"
			}
			if f.prune != nil {
				mode += "; sequences with two adjacent tokens starting with the same character are skipped, they repeat another document of the family or a longer run"
			}
			desc = append(desc, fmt.Sprintf("%s: prefix %q + every sequence of <=%d tokens over %q (%s)", f.name, f.prefix, n, f.alpha, mode))
		}
		c.Rule("the 652 CommonMark spec examples shipped in pkg/md/spec, then per family every token sequence up to the bound, length-lexicographic within a shard; families: " +
			strings.Join(desc, "; ") + ". class = (family, verdict kind [= compared equal / N:reason not judged / T totality only / X differs], reference flags, set of HTML element kinds in elvish's output)")
		c.Assume("the CommonMark reference is markdown-it-py 4.0.0 (preset 'commonmark', URL re-serialisation replaced by plain percent-encoding); it is validated at the start of every run against the 652 spec examples in pkg/md/spec/spec.json",
			"'lists are always loose' is applied on the reference side by un-hiding the paragraph tokens of tight lists before rendering; setext headings and link reference definitions are detected from the reference parser's token stream; the reference is given the document with its last line terminated",
			"documents on which the reference itself departs from the CommonMark 0.31.2 text, or on which the spec is silent, are not judged (counters not_judged:reference-* and not_judged:unspecified-*); each such rule was established from the spec text and a second implementation",
			"insignificant serialisation = the newline after <li> and <blockquote>, blank space before </li>, </blockquote> or the end of the output, raw versus percent-encoded non-ASCII bytes in href/src; nothing else is normalised",
			"totality is observed as: md.RenderString returns (a case running > 300 s is reported as non-termination) and does not panic",
			"of the differing documents only the 1-minimal ones (no single token can be deleted without losing the difference) are reported; the others are counted under differences")

		// start the oracle pool
		nw := vk.Workers()
		pool := make(chan *c35Oracle, nw)
		var startErr error
		var all []*c35Oracle
		for i := 0; i < nw; i++ {
			o, err := c35StartOracle()
			if err != nil {
				startErr = err
				break
			}
			all = append(all, o)
			pool <- o
		}
		defer func() {
			for _, o := range all {
				o.close()
			}
		}()
		if startErr != nil {
			python, script := c35OraclePaths()
			fmt.Printf("NOTE property=C35 the CommonMark reference oracle could not be started (%s %s: %v); this run covers ONLY totality (no panic, termination), agreement with CommonMark is NOT checked\n", python, script, startErr)
			c.Capped("reference oracle unavailable: only totality was checked, agreement with CommonMark was not")
			c.Set("oracle", "unavailable: "+startErr.Error())
		} else {
			st.pool = pool
			c.Set("oracle", fmt.Sprintf("markdown-it-py via %d worker processes", nw))
			st.specCorpus()
		}

		for _, f := range c35Families {
			if st.dead != nil {
				break
			}
			t0 := time.Now()
			n := vk.Pick(c, f.q, f.t)
			// one-off deeper exploration of selected families (not a tier):
			// VERIF_C35_DEEP="mixed=6,blocks=7"
			if deep := os.Getenv("VERIF_C35_DEEP"); deep != "" {
				n = 0
				for _, kv := range strings.Split(deep, ",") {
					if k, v, ok := strings.Cut(kv, "="); ok && k == f.name {
						n, _ = strconv.Atoi(v)
					}
				}
				if n == 0 {
					continue
				}
				c.Capped("VERIF_C35_DEEP: one-off run of selected families")
			}
			st.explore(f, n)
			if len(f.alpha) > 7 && n >= 3 {
				c.Sample(f.prefix + f.alpha[1] + f.alpha[len(f.alpha)/2] + f.alpha[7]) // one of the enumerated documents
			}
			fmt.Printf("INFO property=C35 family %s done in %.1fs\n", f.name, time.Since(t0).Seconds())
		}
		if st.dead != nil {
			fmt.Printf("HARNESS-ERROR property=C35 the reference oracle failed during the run: %v\n", st.dead)
			c.Capped("reference oracle failed during the run")
		}

		keys := make([]string, 0, len(st.best))
		for k := range st.best {
			keys = append(keys, k)
		}
		sort.Strings(keys)
		for _, k := range keys {
			c.Violate(k, st.best[k].msg, st.best[k].doc)
			if os.Getenv("VERIF_C35_DUMP") != "" {
				fmt.Printf("INFO key=%s %s\n", k, st.best[k].msg)
				fmt.Printf("INFO    more: %q\n", st.more[k])
			}
		}
		ck := make([]string, 0, len(st.cnt))
		for k := range st.cnt {
			ck = append(ck, k)
		}
		sort.Strings(ck)
		for _, k := range ck {
			c.Set(k, st.cnt[k])
		}
	})
}
