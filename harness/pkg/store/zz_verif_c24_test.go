//go:build verif

package store

// C24: the history store behaves like a sequential log with unique sequence
// numbers (command history) and like a decaying score table (directory
// history). Every history of mutators up to a depth bound is replayed on a
// fresh real bbolt-backed store and, in the state it reaches, every query of a
// fixed query alphabet is compared with a slice/map reference model written
// from the documentation (pkg/mods/store/store.d.elv, storedefs).

import (
	"bufio"
	"encoding/json"
	"fmt"
	"hash/fnv"
	"math"
	"os"
	"os/exec"
	"path/filepath"
	"sort"
	"strconv"
	"strings"
	"sync"
	"sync/atomic"
	"testing"
	"time"

	bolt "go.etcd.io/bbolt"
	"src.elv.sh/pkg/store/storedefs"
	"src.elv.sh/pkg/zzverif/vk"
)

// ---------------------------------------------------------------- alphabet

const (
	c24AddCmd = iota
	c24DelCmd
	c24AddDir
	c24DelDir
)

// Sequence-number selectors: 0..3 are absolute numbers; c24SelNext is
// "last+1" (the number the next add will get), c24SelFar is "last+5".
const (
	c24SelNext = 4
	c24SelFar  = 5
	c24NSel    = 6
)

type c24Op struct {
	kind   int
	text   string  // AddCmd
	sel    int     // DelCmd
	dir    string  // AddDir, DelDir
	factor float64 // AddDir
}

var c24Texts = []string{"", "a", "ab", "\xff"}
var c24Prefixes = []string{"", "a", "ab", "b"}

func c24Mutators(thorough bool) []c24Op {
	var ops []c24Op
	for _, t := range c24Texts {
		ops = append(ops, c24Op{kind: c24AddCmd, text: t})
	}
	for s := 0; s < c24NSel; s++ {
		ops = append(ops, c24Op{kind: c24DelCmd, sel: s})
	}
	for _, d := range []string{"x", "y"} {
		for _, f := range []float64{1, 0.5} {
			ops = append(ops, c24Op{kind: c24AddDir, dir: d, factor: f})
		}
	}
	for _, d := range []string{"x", "y"} {
		ops = append(ops, c24Op{kind: c24DelDir, dir: d})
	}
	return ops
}

var c24Blacklists = []map[string]struct{}{
	storedefs.NoBlacklist,
	{"x": {}},
	{"y": {}, "z": {}},
	{"x": {}, "y": {}},
}

func c24SeqVal(sel, next int) int {
	switch sel {
	case c24SelNext:
		return next
	case c24SelFar:
		return next + 4
	}
	return sel
}

// ------------------------------------------------------------------- model

// Documented parameters of the directory history (pkg/store/dir.go constants
// are the implementation's; these are the oracle's own copies of the
// documented values: decay "roughly 0.5^(1/50)" = 0.986, increment 10).
const (
	c24Decay     = 0.986
	c24Increment = 10.0
	c24RelTol    = 1e-5 // stored scores are rounded to 7 significant digits per write
)

type c24Model struct {
	next  int      // sequence number the next add gets
	texts []string // indexed by sequence number; index 0 unused
	live  []bool
	dirs  map[string]float64
}

func c24NewModel() *c24Model {
	return &c24Model{next: 1, texts: []string{""}, live: []bool{false}, dirs: map[string]float64{}}
}

func (m *c24Model) has(s int) bool { return s >= 1 && s < m.next && m.live[s] }

func (m *c24Model) add(t string) int {
	s := m.next
	m.texts = append(m.texts, t)
	m.live = append(m.live, true)
	m.next++
	return s
}

func (m *c24Model) del(s int) bool {
	if m.has(s) {
		m.live[s] = false
		return true
	}
	return false
}

// list returns the live entries with from <= seq < upto in sequence order;
// upto == -1 means no upper bound (documented for store:cmds).
func (m *c24Model) list(from, upto int) []storedefs.Cmd {
	var out []storedefs.Cmd
	for s := 1; s < m.next; s++ {
		if m.live[s] && s >= from && (upto == -1 || s < upto) {
			out = append(out, storedefs.Cmd{Text: m.texts[s], Seq: s})
		}
	}
	return out
}

func (m *c24Model) searchNext(from int, p string) (storedefs.Cmd, bool) {
	for s := 1; s < m.next; s++ {
		if s >= from && m.live[s] && strings.HasPrefix(m.texts[s], p) {
			return storedefs.Cmd{Text: m.texts[s], Seq: s}, true
		}
	}
	return storedefs.Cmd{}, false
}

func (m *c24Model) searchPrev(upto int, p string) (storedefs.Cmd, bool) {
	for s := m.next - 1; s >= 1; s-- {
		if s < upto && m.live[s] && strings.HasPrefix(m.texts[s], p) {
			return storedefs.Cmd{Text: m.texts[s], Seq: s}, true
		}
	}
	return storedefs.Cmd{}, false
}

func (m *c24Model) visit(d string, f float64) {
	for k := range m.dirs {
		m.dirs[k] *= c24Decay
	}
	m.dirs[d] += c24Increment * f
}

func (m *c24Model) key() string {
	var sb strings.Builder
	fmt.Fprintf(&sb, "%d", m.next)
	for s := 1; s < m.next; s++ {
		if m.live[s] {
			fmt.Fprintf(&sb, "|%d=%q", s, m.texts[s])
		}
	}
	ks := make([]string, 0, len(m.dirs))
	for k := range m.dirs {
		ks = append(ks, k)
	}
	sort.Strings(ks)
	for _, k := range ks {
		fmt.Fprintf(&sb, "|%s:%.9g", k, m.dirs[k])
	}
	return sb.String()
}

// ------------------------------------------------------------- bookkeeping

type c24Finding struct {
	Idx []int
	Msg string
}

// c24Run accumulates the results of one process (the master, which evaluates
// the histories of length 0 and 1 itself, or one worker process).
type c24Run struct {
	ops         []c24Op
	depth       int
	scratch     string
	fileNo      int64
	mu          sync.Mutex
	findings    map[string]c24Finding
	modelStates map[uint64]struct{}
	implStates  map[uint64]struct{}
	histories   int64
	transitions int64
	queries     int64
	notJudged   map[string]int64
	perDepth    [16]int64
}

func c24NewRun(thorough bool, depth int, scratch string) *c24Run {
	return &c24Run{ops: c24Mutators(thorough), depth: depth, scratch: scratch,
		findings: map[string]c24Finding{}, modelStates: map[uint64]struct{}{}, implStates: map[uint64]struct{}{},
		notJudged: map[string]int64{}}
}

// c24Result is what a worker process sends back to the master.
type c24Result struct {
	Evals       int64
	Classes     map[string]int64
	Findings    map[string]c24Finding
	ModelStates []uint64
	ImplStates  []uint64
	Histories   int64
	Transitions int64
	Queries     int64
	NotJudged   map[string]int64
	PerDepth    []int64
	Capped      bool
}

func c24Less(a, b []int) bool {
	if len(a) != len(b) {
		return len(a) < len(b)
	}
	for i := range a {
		if a[i] != b[i] {
			return a[i] < b[i]
		}
	}
	return false
}

// report keeps, per violation key, the shortest (then lexicographically
// first) history, so that the reported counterexample is deterministic.
func (r *c24Run) report(key string, idx []int, msg string) {
	r.mu.Lock()
	defer r.mu.Unlock()
	if old, ok := r.findings[key]; ok && !c24Less(idx, old.Idx) {
		return
	}
	r.findings[key] = c24Finding{append([]int{}, idx...), msg}
}

func (r *c24Run) count(k string) { r.notJudged[k]++ }

func c24Hash(s string) uint64 {
	h := fnv.New64a()
	h.Write([]byte(s))
	return h.Sum64()
}

func (r *c24Run) seen(modelKey, implKey string) {
	r.modelStates[c24Hash(modelKey)] = struct{}{}
	r.implStates[c24Hash(implKey)] = struct{}{}
}

func c24OpString(op c24Op, next int) string {
	switch op.kind {
	case c24AddCmd:
		return fmt.Sprintf("AddCmd(%q)", op.text)
	case c24DelCmd:
		return fmt.Sprintf("DelCmd(%d)", c24SeqVal(op.sel, next))
	case c24AddDir:
		return fmt.Sprintf("AddDir(%q,%g)", op.dir, op.factor)
	default:
		return fmt.Sprintf("DelDir(%q)", op.dir)
	}
}

// --------------------------------------------------------------- one history

func (r *c24Run) history(l *vk.Local, idx []int) {
	r.fileNo++
	path := filepath.Join(r.scratch, fmt.Sprintf("c24-%d-%d.db", os.Getpid(), r.fileNo))
	defer os.Remove(path)
	hist := "<fresh store>"
	bad := func(key, format string, a ...any) {
		r.report(key, idx, "history ["+hist+"]: "+fmt.Sprintf(format, a...))
	}
	db, err := bolt.Open(path, 0o600, &bolt.Options{NoSync: true, NoFreelistSync: true})
	if err != nil {
		panic(fmt.Sprintf("harness: cannot open bbolt file %s: %v", path, err))
	}
	st, err := NewStoreFromDB(db)
	if err != nil {
		db.Close()
		bad("new-store-error", "NewStoreFromDB on a fresh database failed: %v", err)
		l.Case("new-store-error")
		return
	}
	defer st.Close()

	m := c24NewModel()
	var steps []string
	highest := 0 // highest sequence number ever handed out in this history
	lastKind, lastEffect := -1, false
	if p := vk.Try(func() {
		// ---- replay the mutators, judging each result
		for _, oi := range idx {
			op := r.ops[oi]
			steps = append(steps, c24OpString(op, m.next))
			hist = strings.Join(steps, " ")
			lastKind = op.kind
			switch op.kind {
			case c24AddCmd:
				announced, err0 := st.NextCmdSeq()
				got, err := st.AddCmd(op.text)
				want := m.add(op.text)
				lastEffect = true
				if err != nil || err0 != nil {
					bad("add-cmd:error", "AddCmd returned error %v (NextCmdSeq error %v)", err, err0)
					break
				}
				if got <= highest {
					bad("add-cmd:seq-not-increasing", "AddCmd returned sequence number %d although %d had already been handed out (numbers must strictly increase and never be reused)", got, highest)
				} else if got != announced {
					bad("add-cmd:seq-differs-from-next-cmd-seq", "NextCmdSeq announced %d but the following AddCmd returned %d", announced, got)
				} else if got != want {
					bad("add-cmd:wrong-seq", "AddCmd returned %d, model says %d", got, want)
				}
				if got > highest {
					highest = got
				}
			case c24DelCmd:
				s := c24SeqVal(op.sel, m.next)
				err := st.DelCmd(s)
				lastEffect = m.del(s)
				if err != nil {
					if lastEffect {
						bad("del-cmd:error-on-present", "DelCmd(%d) of a present entry returned error %v", s, err)
					} else {
						r.count("not_judged:del-cmd-absent-returns-error")
					}
				} else if !lastEffect {
					r.count("not_judged:del-cmd-absent-returns-nil")
				}
			case c24AddDir:
				err := st.AddDir(op.dir, op.factor)
				m.visit(op.dir, op.factor)
				lastEffect = true
				if err != nil {
					bad("add-dir:error", "AddDir returned error %v", err)
				}
			case c24DelDir:
				err := st.DelDir(op.dir)
				_, lastEffect = m.dirs[op.dir]
				delete(m.dirs, op.dir)
				if err != nil {
					if lastEffect {
						bad("del-dir:error-on-present", "DelDir(%q) of a present entry returned error %v", op.dir, err)
					} else {
						r.count("not_judged:del-dir-absent-returns-error")
					}
				} else if !lastEffect {
					r.count("not_judged:del-dir-absent-returns-nil")
				}
			}
		}
		r.transitions += int64(len(idx))

		// ---- every query in the reached state
		nq := int64(0)
		// NextCmdSeq
		if n, err := st.NextCmdSeq(); err != nil {
			bad("next-cmd-seq:error", "NextCmdSeq returned error %v", err)
		} else if n != m.next {
			if len(idx) == 0 {
				bad("next-cmd-seq:fresh-store-not-1", "NextCmdSeq on a fresh store = %d, want 1", n)
			} else {
				bad("next-cmd-seq:wrong", "NextCmdSeq = %d, want %d", n, m.next)
			}
		}
		nq++
		// Cmd
		for sel := 0; sel < c24NSel; sel++ {
			s := c24SeqVal(sel, m.next)
			text, err := st.Cmd(s)
			nq++
			if m.has(s) {
				if err != nil {
					bad("cmd:error-on-present", "Cmd(%d) = error %v, want %q", s, err, m.texts[s])
				} else if text != m.texts[s] {
					bad("cmd:wrong-text", "Cmd(%d) = %q, want %q", s, text, m.texts[s])
				}
			} else if err == nil {
				bad("cmd:no-error-on-absent", "Cmd(%d) = %q without error although no entry has that number", s, text)
			}
		}
		// CmdsWithSeq
		for fsel := 0; fsel < c24NSel; fsel++ {
			from := c24SeqVal(fsel, m.next)
			for usel := -1; usel < c24NSel; usel++ {
				upto, sfx := -1, ":unbounded-upto"
				if usel >= 0 {
					upto, sfx = c24SeqVal(usel, m.next), ""
				}
				got, err := st.CmdsWithSeq(from, upto)
				nq++
				want := m.list(from, upto)
				if err != nil {
					bad("cmds:error"+sfx, "CmdsWithSeq(%d,%d) returned error %v", from, upto, err)
					continue
				}
				verdict := ""
				for i, e := range got {
					switch {
					case i > 0 && got[i-1].Seq >= e.Seq:
						verdict = "cmds:not-in-seq-order"
					case e.Seq < from || (upto != -1 && e.Seq >= upto):
						verdict = "cmds:outside-range"
					case !m.has(e.Seq) || m.texts[e.Seq] != e.Text:
						verdict = "cmds:phantom-entry"
					}
					if verdict != "" {
						break
					}
				}
				if verdict == "" && len(got) != len(want) {
					verdict = "cmds:missing-entry"
				}
				if verdict != "" {
					bad(verdict+sfx, "CmdsWithSeq(%d,%d) = %v, want %v", from, upto, got, want)
				}
			}
		}
		// NextCmd / PrevCmd
		for sel := 0; sel < c24NSel; sel++ {
			bound := c24SeqVal(sel, m.next)
			for _, p := range c24Prefixes {
				for _, next := range []bool{true, false} {
					name := "prev-cmd"
					var got, want storedefs.Cmd
					var err error
					var ok bool
					if next {
						name = "next-cmd"
						got, err = st.NextCmd(bound, p)
						want, ok = m.searchNext(bound, p)
					} else {
						got, err = st.PrevCmd(bound, p)
						want, ok = m.searchPrev(bound, p)
					}
					nq++
					call := fmt.Sprintf("%s(%d,%q)", map[bool]string{true: "NextCmd", false: "PrevCmd"}[next], bound, p)
					switch {
					case err != nil && ok:
						bad(name+":missed-match", "%s = error %v, want %v", call, err, want)
					case err != nil && err != storedefs.ErrNoMatchingCmd:
						bad(name+":wrong-error-value", "%s = error %v, want ErrNoMatchingCmd", call, err)
					case err != nil:
					case !m.has(got.Seq) || m.texts[got.Seq] != got.Text:
						bad(name+":phantom-entry", "%s = %v, which is not an entry of the history (want %v, found=%v)", call, got, want, ok)
					case !strings.HasPrefix(got.Text, p):
						bad(name+":prefix-mismatch", "%s = %v, whose text does not have the prefix (want %v, found=%v)", call, got, want, ok)
					case next && got.Seq < bound:
						bad(name+":before-from", "%s = %v, which is before the given number (want %v, found=%v)", call, got, want, ok)
					case !next && got.Seq >= bound:
						bad(name+":not-strictly-before", "%s = %v, which is not strictly before the given number (want %v, found=%v)", call, got, want, ok)
					case got.Seq != want.Seq:
						bad(name+":not-nearest", "%s = %v, but the nearest match is %v", call, got, want)
					}
				}
			}
		}
		// Dirs
		tie := false
		for bi, bl := range c24Blacklists {
			got, err := st.Dirs(bl)
			nq++
			if err != nil {
				bad("dirs:error", "Dirs(blacklist %d) returned error %v", bi, err)
				continue
			}
			want := 0
			for k := range m.dirs {
				if _, b := bl[k]; !b {
					want++
				}
			}
			seen := map[string]bool{}
			verdict := ""
			for i, d := range got {
				ws, present := m.dirs[d.Path]
				_, black := bl[d.Path]
				switch {
				case black:
					verdict = "dirs:blacklisted-path-listed"
				case !present || seen[d.Path]:
					verdict = "dirs:phantom-or-duplicate-path"
				case math.IsNaN(d.Score) || math.Abs(d.Score-ws) > c24RelTol*math.Abs(ws):
					verdict = "dirs:wrong-score"
				case i > 0 && got[i-1].Score < d.Score:
					verdict = "dirs:not-descending"
				}
				if i > 0 && got[i-1].Score == d.Score {
					tie = true
				}
				seen[d.Path] = true
				if verdict != "" {
					break
				}
			}
			if verdict == "" && len(got) != want {
				verdict = "dirs:missing-path"
			}
			if verdict != "" {
				bad(verdict, "Dirs(blacklist %v) = %v, model scores %v", c24Keys(bl), got, c24ScoreString(m.dirs))
			}
		}
		if tie {
			r.count("not_judged:relative-order-of-equal-scores")
		}
		// negative numbers: outside the documented domain, observed but not judged
		if e, err := st.PrevCmd(-1, ""); err == nil {
			last, _ := m.searchPrev(m.next, "")
			if e == last {
				r.count("not_judged:PrevCmd(-1)-returns-the-last-entry")
			} else {
				r.count("not_judged:PrevCmd(-1)-returns-another-entry")
			}
		} else {
			r.count("not_judged:PrevCmd(-1)-no-match")
		}
		if _, err := st.NextCmd(-1, ""); err == nil {
			r.count("not_judged:NextCmd(-1)-returns-an-entry")
		} else {
			r.count("not_judged:NextCmd(-1)-no-match")
		}
		if _, err := st.Cmd(-1); err == nil {
			r.count("not_judged:Cmd(-1)-returns-a-value")
		} else {
			r.count("not_judged:Cmd(-1)-error")
		}
		if es, _ := st.CmdsWithSeq(-1, 3); len(es) > 0 {
			r.count("not_judged:CmdsWithSeq(-1,3)-non-empty")
		} else {
			r.count("not_judged:CmdsWithSeq(-1,3)-empty")
		}
		nq += 4
		r.queries += nq

		// state fingerprints (distinct abstract states / distinct observed states)
		all, _ := st.CmdsWithSeq(0, -1)
		ds, _ := st.Dirs(storedefs.NoBlacklist)
		sort.Slice(ds, func(i, j int) bool { return ds[i].Path < ds[j].Path })
		n, _ := st.NextCmdSeq()
		r.seen(m.key(), fmt.Sprintf("%d|%q|%v", n, all, ds))
	}); p != "" {
		bad("panic:"+vk.PanicSite(p), "panic: %s", p)
		l.Case("panic")
		return
	}
	r.histories++
	r.perDepth[len(idx)]++

	// class: presence pattern of the sequence numbers, number of directories,
	// kind of the last mutator and whether it changed the model state
	mask := 0
	for s := 1; s < m.next; s++ {
		if m.live[s] {
			mask |= 1 << uint(s-1)
		}
	}
	l.Case(fmt.Sprintf("next=%d live=%b dirs=%d last=%d/%v", m.next, mask, len(m.dirs), lastKind, lastEffect))
}

func c24Keys(bl map[string]struct{}) []string {
	ks := []string{}
	for k := range bl {
		ks = append(ks, k)
	}
	sort.Strings(ks)
	return ks
}

func c24ScoreString(d map[string]float64) string {
	ks := make([]string, 0, len(d))
	for k := range d {
		ks = append(ks, k)
	}
	sort.Strings(ks)
	var sb strings.Builder
	for _, k := range ks {
		fmt.Fprintf(&sb, "%s=%.9g ", k, d[k])
	}
	return strings.TrimSpace(sb.String())
}

// ------------------------------------------------------------ enumeration

// level evaluates every history of exactly n mutators that extends pre, in
// lexicographic order. It returns false when the deadline passed.
func (r *c24Run) level(l *vk.Local, pre []int, n int, deadline time.Time) bool {
	buf := make([]int, n)
	copy(buf, pre)
	ok := true
	var rec func(i int)
	rec = func(i int) {
		if !ok {
			return
		}
		if i == n {
			if time.Now().After(deadline) {
				ok = false
				return
			}
			r.history(l, buf)
			return
		}
		for s := range r.ops {
			buf[i] = s
			rec(i + 1)
		}
	}
	rec(len(pre))
	return ok
}

// c24Worker is the body of a worker process: it reads one work item (a history
// length followed by a history prefix as mutator indices) per line on stdin,
// evaluates all histories of that length with that prefix, answers "ok" or
// "capped", and on EOF prints its result.
// Worker processes are used instead of goroutines because bbolt maps every
// database file into memory and address-space operations of one process are
// serialised by the kernel.
func c24Worker() {
	depth, _ := strconv.Atoi(os.Getenv("C24_DEPTH"))
	dl, _ := strconv.ParseInt(os.Getenv("C24_DEADLINE"), 10, 64)
	deadline := time.Unix(dl, 0)
	r := c24NewRun(os.Getenv("VERIF_TIER") == "thorough", depth, os.Getenv("C24_SCRATCH"))
	l := vk.NewLocal()
	capped := false
	in := bufio.NewScanner(os.Stdin)
	out := bufio.NewWriter(os.Stdout)
	for in.Scan() {
		var item []int
		for _, f := range strings.Fields(in.Text()) {
			v, _ := strconv.Atoi(f)
			item = append(item, v)
		}
		if r.level(l, item[1:], item[0], deadline) {
			fmt.Fprintln(out, "C24 ok")
		} else {
			capped = true
			fmt.Fprintln(out, "C24 capped")
		}
		out.Flush()
	}
	res := c24Result{Evals: l.Evals, Classes: l.Classes, Findings: r.findings, Histories: r.histories,
		Transitions: r.transitions, Queries: r.queries, NotJudged: r.notJudged, PerDepth: r.perDepth[:], Capped: capped}
	for h := range r.modelStates {
		res.ModelStates = append(res.ModelStates, h)
	}
	for h := range r.implStates {
		res.ImplStates = append(res.ImplStates, h)
	}
	data, _ := json.Marshal(res)
	fmt.Fprintf(out, "C24 result %s\n", data)
	out.Flush()
}

func (r *c24Run) merge(res *c24Result) {
	r.mu.Lock()
	defer r.mu.Unlock()
	for k, f := range res.Findings {
		if old, ok := r.findings[k]; !ok || c24Less(f.Idx, old.Idx) {
			r.findings[k] = f
		}
	}
	for _, h := range res.ModelStates {
		r.modelStates[h] = struct{}{}
	}
	for _, h := range res.ImplStates {
		r.implStates[h] = struct{}{}
	}
	r.histories += res.Histories
	r.transitions += res.Transitions
	r.queries += res.Queries
	for k, n := range res.NotJudged {
		r.notJudged[k] += n
	}
	for i, n := range res.PerDepth {
		r.perDepth[i] += n
	}
}

// ---------------------------------------------------------------------- test

func TestVerifC24(t *testing.T) {
	if os.Getenv("C24_WORKER") != "" {
		c24Worker()
		return
	}
	vk.Run(t, "C24", "model_checking", func(c *vk.Ctx) {
		depth := vk.Pick(c, 4, 5)
		budget, _ := strconv.Atoi(os.Getenv("VERIF_BUDGET_S"))
		if budget == 0 {
			budget = vk.Pick(c, 240, 1500)
		}
		deadline := time.Now().Add(time.Duration(budget) * time.Second)
		scratch := os.Getenv("VERIF_SCRATCH")
		if scratch == "" {
			d, err := os.MkdirTemp("/dev/shm", "verif-c24-")
			if err != nil {
				panic(err)
			}
			defer os.RemoveAll(d)
			scratch = d
		}
		r := c24NewRun(c.Thorough(), depth, scratch)
		var names []string
		for _, op := range r.ops {
			s := c24OpString(op, 0)
			if op.kind == c24DelCmd && op.sel == c24SelNext {
				s = "DelCmd(last+1)"
			} else if op.kind == c24DelCmd && op.sel == c24SelFar {
				s = "DelCmd(last+5)"
			}
			names = append(names, s)
		}
		c.Rule(fmt.Sprintf("every sequence of <=%d mutators over the %d-mutator alphabet %v, each replayed on a fresh real bbolt database (complete tree of histories, breadth-first by length, no state merging); after every mutator its result is judged, and in the state reached by every history all queries are evaluated and judged: NextCmdSeq, Cmd(s), CmdsWithSeq(f,u) incl. u=-1, NextCmd(f,p), PrevCmd(u,p) for s,f,u in {0,1,2,3,last+1,last+5}, p in %q, Dirs(bl) for 4 blacklists; class = (next sequence number, presence bitmap of the sequence numbers, number of directories, kind of the last mutator, whether it changed the state)", depth, len(r.ops), names, c24Prefixes))
		c.Assume(
			"the database is opened with bbolt options NoSync+NoFreelistSync through NewStoreFromDB (durability / the default-options path is C25's subject); one store handle, no concurrency (C26)",
			"stored directory scores are compared with the exact real-number formula with relative tolerance 1e-5 (the store rounds to 7 significant digits on every write); the relative order of entries with equal scores is not judged",
			"negative sequence numbers are outside the documented domain (except upto=-1 of CmdsWithSeq, documented as 'no upper bound'): observed and counted, not judged; whether deleting an absent entry returns an error is not judged (the state must be unchanged)",
			"reference model = Go slice/map written from pkg/mods/store/store.d.elv, storedefs and the property statement",
			"distinct states are counted by a 64-bit hash of the canonical state",
		)

		// histories of length 0 and 1 in this process, simplest first
		l0 := vk.NewLocal()
		r.history(l0, nil)
		for s := range r.ops {
			r.history(l0, []int{s})
		}
		c.Merge(l0)

		// breadth-first: all histories of length n before those of length n+1;
		// each level is split by the first two mutators into work items {n, a, b}
		// that are handed out dynamically to worker processes
		var shards [][]int
		for n := 2; n <= depth; n++ {
			for a := range r.ops {
				for b := range r.ops {
					shards = append(shards, []int{n, a, b})
				}
			}
		}
		self, err := os.Executable()
		if err != nil {
			panic(err)
		}
		var next atomic.Int64
		var wg sync.WaitGroup
		var failed atomic.Value
		for w := 0; w < vk.Workers() && len(shards) > 0; w++ {
			wg.Add(1)
			go func(w int) {
				defer wg.Done()
				cmd := exec.Command(self, "-test.run", "^TestVerifC24$", "-test.timeout", "0")
				cmd.Env = append(os.Environ(), "C24_WORKER=1", "GOMAXPROCS=1", "C24_SCRATCH="+scratch,
					fmt.Sprintf("C24_DEPTH=%d", depth), fmt.Sprintf("C24_DEADLINE=%d", deadline.Unix()))
				cmd.Stderr = os.Stderr
				stdin, _ := cmd.StdinPipe()
				stdout, _ := cmd.StdoutPipe()
				if err := cmd.Start(); err != nil {
					failed.Store(fmt.Sprintf("cannot start worker: %v", err))
					return
				}
				rd := bufio.NewReaderSize(stdout, 1<<20)
				readLine := func() string {
					for {
						line, err := rd.ReadString('\n')
						if strings.HasPrefix(line, "C24 ") {
							return strings.TrimSpace(line[4:])
						}
						if err != nil {
							return ""
						}
					}
				}
				for {
					i := int(next.Add(1)) - 1
					if i >= len(shards) {
						break
					}
					if c.TimeUp() {
						c.Capped(fmt.Sprintf("time budget reached at length %d", shards[i][0]))
						break
					}
					fmt.Fprintf(stdin, "%d %d %d\n", shards[i][0], shards[i][1], shards[i][2])
					switch readLine() {
					case "ok":
					case "capped":
						c.Capped(fmt.Sprintf("time budget reached at length %d (prefix %v)", shards[i][0], shards[i][1:]))
					default:
						failed.Store(fmt.Sprintf("worker %d died while evaluating work item %v", w, shards[i]))
						cmd.Wait()
						return
					}
				}
				stdin.Close()
				line := readLine()
				cmd.Wait()
				if !strings.HasPrefix(line, "result ") {
					failed.Store(fmt.Sprintf("worker %d did not deliver a result", w))
					return
				}
				var res c24Result
				if err := json.Unmarshal([]byte(line[7:]), &res); err != nil {
					failed.Store(fmt.Sprintf("worker %d: bad result: %v", w, err))
					return
				}
				r.merge(&res)
				lw := vk.NewLocal()
				lw.Evals, lw.Classes = res.Evals, res.Classes
				if lw.Classes == nil {
					lw.Classes = map[string]int64{}
				}
				c.Merge(lw)
			}(w)
		}
		wg.Wait()
		if f := failed.Load(); f != nil {
			panic("harness: " + f.(string))
		}

		keys := make([]string, 0, len(r.findings))
		for k := range r.findings {
			keys = append(keys, k)
		}
		sort.Strings(keys)
		for _, k := range keys {
			f := r.findings[k]
			c.Violate(k, f.Msg, f.Msg)
		}
		c.Set("depth", depth)
		c.Set("mutators", len(r.ops))
		c.Set("states", len(r.implStates))
		c.Set("states_model", len(r.modelStates))
		c.Set("histories", r.histories)
		c.Set("histories_per_depth", append([]int64{}, r.perDepth[:depth+1]...))
		c.Set("transitions", r.transitions)
		c.Set("transitions_distinct_tree_edges", r.histories-1)
		c.Set("queries_judged_or_observed", r.queries)
		c.Set("traces_validated_against_impl", r.histories)
		for k, n := range r.notJudged {
			c.Set(k, n)
		}
		c.Sample("AddCmd(\"a\") DelCmd(1) AddCmd(\"ab\") AddDir(\"x\",0.5)")
	})
}
