//go:build verif

package shell

// C22: a module is evaluated at most once per interpreter and shared; relative
// imports resolve against the importing file, or against the working directory
// for code that is not from a file; a module whose evaluation fails is not
// remembered.
//
// Bounded-exhaustive enumeration of module graphs on real directories, imported
// by sessions that are run through the three real front ends of the shell:
// script files (script()), code given with -c (script() with Cmd) and lines
// typed at the non-terminal prompt (interact(), optionally after an rc file).
// Because the working directory is process-global and sessions contain cd, the
// enumeration is sharded over worker processes (the same test binary
// re-executed), each with its own directory tree and working directory.

import (
	"bufio"
	"encoding/json"
	"errors"
	"fmt"
	"os"
	"os/exec"
	"path/filepath"
	"runtime"
	"sort"
	"strconv"
	"strings"
	"sync"
	"testing"
	"time"

	"src.elv.sh/pkg/eval"
	"src.elv.sh/pkg/zzverif/vk"
)

// The four candidate module files, relative to the worker root. lib is the
// only module search directory. Paths 0/2 and 1/3 are "twins": same relative
// spec ./m (./n) from the two directories.
var c22Paths = []string{"lib/m", "lib/n", "lib/d/m", "lib/d/n"}
var c22PathDir = []int{0, 0, 1, 1} // 0 = lib, 1 = lib/d
var c22LibSpec = []string{"m", "n", "d/m", "d/n"}
var c22DirName = []string{"lib", "lib/d", "."} // directory codes 0, 1, 2 (2 = worker root)

const (
	c22None    = 0
	c22Rel     = 1 // use ./x, ../x
	c22Lib     = 2 // use x (module search directory)
	c22Unclean = 3 // relative spec with a redundant d/.. component
	c22Toggle  = 9 // session step: cd to the other one of lib, lib/d
)

const c22Top = 9 // importer id of top-level code

// c22RelSpec spells the relative module spec that leads from directory code
// from to candidate path p.
func c22RelSpec(from, p int, unclean bool) string {
	if unclean {
		return []string{"./", "../", "./lib/"}[from] + "d/../" + c22LibSpec[p]
	}
	switch from {
	case 0:
		return "./" + c22LibSpec[p]
	case 1:
		if c22PathDir[p] == 1 {
			return "./" + c22LibSpec[p][2:]
		}
		return "../" + c22LibSpec[p]
	default:
		return "./lib/" + c22LibSpec[p]
	}
}

// c22Resolve is the documented meaning of a relative spec: the path named by
// spec relative to dir, computed component-wise (self-check of c22RelSpec).
func c22Resolve(dir, spec string) string {
	var parts []string
	for _, s := range strings.Split(dir+"/"+spec, "/") {
		switch s {
		case "", ".":
		case "..":
			if len(parts) > 0 {
				parts = parts[:len(parts)-1]
			}
		default:
			parts = append(parts, s)
		}
	}
	return strings.Join(parts, "/")
}

func c22Spec(from, p, kind int) string {
	switch kind {
	case c22Lib:
		return c22LibSpec[p]
	case c22Unclean:
		return c22RelSpec(from, p, true)
	}
	return c22RelSpec(from, p, false)
}

// One module graph.
type c22Cfg struct {
	set   []int   // candidate path indices that exist, ascending
	edges [][]int // edges[i][j]: how module set[i] imports set[j]
	fail  []int   // per module: 0 never fails, 1 always fails after its imports, 2 fails on its first evaluation only
}

func (g *c22Cfg) has(p int) int {
	for i, q := range g.set {
		if q == p {
			return i
		}
	}
	return -1
}

func (g *c22Cfg) moduleCode(i int) string {
	p := g.set[i]
	var b strings.Builder
	fmt.Fprintf(&b, "c22ev %d\nvar c = 0\n", p)
	for j, k := range g.edges[i] {
		if k == c22None {
			continue
		}
		q := g.set[j]
		fmt.Fprintf(&b, "use %s x%d\nc22obs %d %d $x%d:\n", c22Spec(c22PathDir[p], q, k), q, p, q, q)
	}
	fmt.Fprintf(&b, "c22fin %d\n", p)
	return b.String()
}

type c22Step struct{ Op, Tgt int }

// Driver: 'S' script file in directory Loc; 'C' -c code; 'T' prompt lines, the
// first RC steps placed in an rc file in lib/d. Non-file code starts in lib.
type c22Driver struct {
	Kind byte
	Loc  int
	RC   int
}

func (d c22Driver) String() string {
	switch d.Kind {
	case 'S':
		return "script@" + c22DirName[d.Loc]
	case 'C':
		return "cmd"
	}
	return fmt.Sprintf("tty+rc%d", d.RC)
}

// ---- the oracle: the documented cache model -------------------------------

type c22Model struct {
	g     *c22Cfg
	cache [4]*int
	evals [4]int
	log   []string
}

// use imports candidate path p on behalf of importer; returns the module
// instance (its counter) or the reason of the exception.
func (m *c22Model) use(p int) (*int, string) {
	i := m.g.has(p)
	if i < 0 {
		return nil, "nosuch"
	}
	if inst := m.cache[p]; inst != nil {
		return inst, "" // "Subsequent imports do not re-execute the module"
	}
	inst := new(int)
	m.cache[p] = inst // circular dependencies are allowed: visible while being evaluated
	m.evals[p]++
	m.log = append(m.log, fmt.Sprintf("E %d", p))
	for j, k := range m.g.edges[i] {
		if k == c22None {
			continue
		}
		q := m.g.set[j]
		r, exc := m.use(q)
		if exc != "" {
			m.cache[p] = nil // failed evaluation is not remembered
			return nil, exc
		}
		*r++
		m.log = append(m.log, fmt.Sprintf("O %d %d %d", p, q, *r))
	}
	if f := m.g.fail[i]; f == 1 || f == 2 && m.evals[p] == 1 {
		m.log = append(m.log, fmt.Sprintf("X %d", p))
		m.cache[p] = nil
		return nil, fmt.Sprintf("fail:%d", p)
	}
	return inst, ""
}

func (m *c22Model) top(p int) {
	r, exc := m.use(p)
	if exc != "" {
		m.log = append(m.log, "R "+exc)
		return
	}
	*r++
	m.log = append(m.log, fmt.Sprintf("O %d %d %d", c22Top, p, *r), "R ok")
}

// ---- running one case on the real code -----------------------------------

type c22FailErr struct{ p int }

func (e c22FailErr) Error() string { return fmt.Sprintf("c22 module %d fails", e.p) }

var c22HorizonErr = errors.New("c22 horizon: module evaluated more than 20 times in one interpreter")

type c22Run struct {
	g     *c22Cfg
	evals [4]int
	log   []string
}

func (r *c22Run) fns() map[string]any {
	return map[string]any{
		"c22ev": func(p int) error {
			r.log = append(r.log, fmt.Sprintf("E %d", p))
			if p < 0 || p > 3 {
				return nil
			}
			r.evals[p]++
			if r.evals[p] > 20 {
				return c22HorizonErr
			}
			return nil
		},
		// c22obs importer target $ns: increments variable c of the imported
		// namespace (what `set ns:c = (+ $ns:c 1)` does, without the cost of an
		// output capture) and logs the new value.
		"c22obs": func(i, q int, ns *eval.Ns) error {
			v := ns.IndexString("c")
			if v == nil {
				return errors.New("c22: imported namespace has no variable c")
			}
			n, err := strconv.Atoi(fmt.Sprint(v.Get()))
			if err != nil {
				return fmt.Errorf("c22: variable c of the imported namespace is %v", v.Get())
			}
			if err := v.Set(strconv.Itoa(n + 1)); err != nil {
				return err
			}
			r.log = append(r.log, fmt.Sprintf("O %d %d %d", i, q, n+1))
			return nil
		},
		"c22fin": func(p int) error {
			i := r.g.has(p)
			if i < 0 {
				return nil
			}
			if f := r.g.fail[i]; f == 1 || f == 2 && r.evals[p] == 1 {
				r.log = append(r.log, fmt.Sprintf("X %d", p))
				return c22FailErr{p}
			}
			return nil
		},
		"c22ok": func() { r.log = append(r.log, "R ok") },
		"c22exc": func(e any) {
			kind := fmt.Sprintf("other:%v", e)
			if exc, ok := e.(eval.Exception); ok {
				reason := exc.Reason()
				var fe c22FailErr
				var ns eval.NoSuchModule
				switch {
				case errors.As(reason, &fe):
					kind = fmt.Sprintf("fail:%d", fe.p)
				case errors.As(reason, &ns):
					kind = "nosuch"
				case errors.Is(reason, c22HorizonErr):
					kind = "horizon"
				default:
					kind = "other:" + reason.Error()
				}
			}
			r.log = append(r.log, "R "+kind)
		},
	}
}

type c22Worker struct {
	root    string // absolute worker root
	files   map[string]string
	devnull *os.File
}

func (w *c22Worker) abs(rel string) string { return filepath.Join(w.root, rel) }

func (w *c22Worker) write(rel, content string) {
	if w.files[rel] == content {
		return
	}
	if err := os.WriteFile(w.abs(rel), []byte(content), 0o644); err != nil {
		panic(err)
	}
	w.files[rel] = content
}

func (w *c22Worker) remove(rel string) {
	if _, ok := w.files[rel]; ok {
		os.Remove(w.abs(rel))
		delete(w.files, rel)
	}
}

func (w *c22Worker) install(g *c22Cfg) {
	for p, path := range c22Paths {
		if i := g.has(p); i >= 0 {
			w.write(path+".elv", g.moduleCode(i))
		} else {
			w.remove(path + ".elv")
		}
	}
}

func c22StepLine(from int, s c22Step, w *c22Worker) string {
	if s.Op == c22Toggle {
		return "cd " + w.abs(c22DirName[s.Tgt])
	}
	return fmt.Sprintf("try { use %s x; c22obs %d %d $x:; c22ok } catch e { c22exc $e }",
		c22Spec(from, s.Tgt, s.Op), c22Top, s.Tgt)
}

// c22Session renders the session: rc file content, main code lines, and runs
// the model. cwd codes: 0 lib, 1 lib/d. Toggle steps carry the target directory.
func c22Session(g *c22Cfg, d c22Driver, steps []c22Step, w *c22Worker) (rc string, lines []string, want []string, origins []string) {
	m := &c22Model{g: g}
	cwd := 0
	var rcLines []string
	for k, s := range steps {
		st := s
		from := cwd
		origin := "cmd"
		switch {
		case d.Kind == 'S':
			from, origin = d.Loc, "file"
		case d.Kind == 'T' && k < d.RC:
			from, origin = 1, "rc"
		case d.Kind == 'T':
			origin = "tty"
		}
		if s.Op == c22Toggle {
			cwd = 1 - cwd
			st.Tgt = cwd
		} else {
			m.top(s.Tgt)
			origins = append(origins, origin)
		}
		line := c22StepLine(from, st, w)
		if d.Kind == 'T' && k < d.RC {
			rcLines = append(rcLines, line)
		} else {
			lines = append(lines, line)
		}
	}
	return strings.Join(rcLines, "\n"), lines, m.log, origins
}

func (w *c22Worker) run(g *c22Cfg, d c22Driver, rc string, lines []string) []string {
	if err := os.Chdir(w.abs("lib")); err != nil {
		panic(err)
	}
	r := &c22Run{g: g}
	ev := eval.NewEvaler()
	ev.LibDirs = []string{w.abs("lib")}
	ev.ExtendBuiltin(eval.BuildNs().AddGoFns(r.fns()))
	fds := [3]*os.File{w.devnull, w.devnull, w.devnull}
	code := strings.Join(lines, "\n")
	switch d.Kind {
	case 'S':
		rel := filepath.Join(c22DirName[d.Loc], "s.elv")
		w.write(rel, code+"\n")
		script(ev, fds, []string{w.abs(rel)}, &scriptCfg{})
	case 'C':
		script(ev, fds, []string{code}, &scriptCfg{Cmd: true})
	case 'T':
		pr, pw, err := os.Pipe()
		if err != nil {
			panic(err)
		}
		if _, err := pw.WriteString(code + "\n"); err != nil {
			panic(err)
		}
		pw.Close()
		fds[0] = pr
		cfg := &interactCfg{}
		if d.RC > 0 {
			w.write("lib/d/rc.elv", rc+"\n")
			cfg.RC = w.abs("lib/d/rc.elv")
		}
		interact(ev, fds, cfg)
		pr.Close()
	}
	return r.log
}

// ---- enumeration -----------------------------------------------------------

type c22Bounds struct {
	Sets      [][]int
	SelfLoops bool
	Kinds     int // number of edge kinds including none (3, or 4 with unclean)
	MaxEdges  int // -1 = unbounded
	MaxFail   int // max modules with a failing mode
	Steps     int // max session length
	// "all": script files in lib, lib/d and their parent (imports of present modules),
	// -c code, prompt lines, and rc file + prompt lines (the latter three with cd steps
	// and imports of absent twins); "cd": the latter three, only sessions containing a
	// cd; "two": script in lib/d and prompt lines; "tty": prompt lines.
	Drivers string
}

func c22BoundsFor(tier string) []c22Bounds {
	one := [][]int{{0}, {2}}
	two := [][]int{{0, 1}, {0, 2}, {0, 3}, {2, 3}}
	three := [][]int{{0, 1, 2}, {0, 2, 3}}
	four := [][]int{{0, 1, 2, 3}}
	if tier == "thorough" {
		return []c22Bounds{
			{Sets: one, SelfLoops: true, Kinds: 4, MaxEdges: -1, MaxFail: 1, Steps: 4, Drivers: "all"},
			{Sets: two, SelfLoops: false, Kinds: 4, MaxEdges: -1, MaxFail: 2, Steps: 3, Drivers: "all"},
			{Sets: two, SelfLoops: true, Kinds: 4, MaxEdges: -1, MaxFail: 1, Steps: 2, Drivers: "two"},
			{Sets: two, SelfLoops: true, Kinds: 3, MaxEdges: -1, MaxFail: 1, Steps: 3, Drivers: "two"},
			{Sets: three, SelfLoops: false, Kinds: 3, MaxEdges: -1, MaxFail: 1, Steps: 2, Drivers: "two"},
			{Sets: three, SelfLoops: false, Kinds: 3, MaxEdges: 2, MaxFail: 1, Steps: 2, Drivers: "all"},
			{Sets: three, SelfLoops: false, Kinds: 3, MaxEdges: 2, MaxFail: 1, Steps: 3, Drivers: "cd"},
			{Sets: three, SelfLoops: false, Kinds: 3, MaxEdges: 2, MaxFail: 2, Steps: 2, Drivers: "two"},
			{Sets: three, SelfLoops: false, Kinds: 3, MaxEdges: 2, MaxFail: 1, Steps: 3, Drivers: "tty"},
			{Sets: four, SelfLoops: false, Kinds: 3, MaxEdges: 2, MaxFail: 1, Steps: 2, Drivers: "tty"},
			{Sets: four, SelfLoops: false, Kinds: 3, MaxEdges: 4, MaxFail: 0, Steps: 2, Drivers: "tty"},
		}
	}
	return []c22Bounds{
		{Sets: one, SelfLoops: true, Kinds: 4, MaxEdges: -1, MaxFail: 1, Steps: 3, Drivers: "all"},
		{Sets: two, SelfLoops: false, Kinds: 3, MaxEdges: -1, MaxFail: 1, Steps: 2, Drivers: "all"},
		{Sets: two, SelfLoops: false, Kinds: 3, MaxEdges: -1, MaxFail: 1, Steps: 3, Drivers: "cd"},
		{Sets: two, SelfLoops: true, Kinds: 3, MaxEdges: -1, MaxFail: 1, Steps: 2, Drivers: "two"},
		{Sets: two, SelfLoops: false, Kinds: 4, MaxEdges: -1, MaxFail: 1, Steps: 2, Drivers: "two"},
		{Sets: three, SelfLoops: false, Kinds: 3, MaxEdges: -1, MaxFail: 0, Steps: 1, Drivers: "two"},
		{Sets: three, SelfLoops: false, Kinds: 3, MaxEdges: -1, MaxFail: 0, Steps: 2, Drivers: "tty"},
		{Sets: three, SelfLoops: false, Kinds: 3, MaxEdges: 2, MaxFail: 1, Steps: 2, Drivers: "tty"},
	}
}

func (b c22Bounds) String() string {
	me := "any number of"
	if b.MaxEdges >= 0 {
		me = fmt.Sprintf("<=%d", b.MaxEdges)
	}
	return fmt.Sprintf("{module sets %v; %s import edges of %d kinds, self-imports %v; <=%d failing modules; sessions of <=%d steps; front ends: %s}",
		b.Sets, me, b.Kinds-1, b.SelfLoops, b.MaxFail, b.Steps, b.Drivers)
}

// c22Graphs calls f for every edge assignment of the block's set.
func c22Graphs(b c22Bounds, set []int, f func(edges [][]int, nEdges int)) {
	n := len(set)
	type pair struct{ i, j int }
	var pairs []pair
	for i := 0; i < n; i++ {
		for j := 0; j < n; j++ {
			if i != j || b.SelfLoops {
				pairs = append(pairs, pair{i, j})
			}
		}
	}
	ks := make([]int, len(pairs))
	for {
		ne := 0
		for _, k := range ks {
			if k != 0 {
				ne++
			}
		}
		if b.MaxEdges < 0 || ne <= b.MaxEdges {
			edges := make([][]int, n)
			for i := range edges {
				edges[i] = make([]int, n)
			}
			for x, pr := range pairs {
				edges[pr.i][pr.j] = ks[x]
			}
			f(edges, ne)
		}
		x := 0
		for ; x < len(ks); x++ {
			ks[x]++
			if ks[x] < b.Kinds {
				break
			}
			ks[x] = 0
		}
		if x == len(ks) {
			return
		}
	}
}

func c22Fails(n, maxFail int) [][]int {
	var out [][]int
	cur := make([]int, n)
	for {
		nf := 0
		for _, f := range cur {
			if f != 0 {
				nf++
			}
		}
		if nf <= maxFail {
			out = append(out, append([]int{}, cur...))
		}
		x := 0
		for ; x < n; x++ {
			cur[x]++
			if cur[x] < 3 {
				break
			}
			cur[x] = 0
		}
		if x == n {
			break
		}
	}
	sort.SliceStable(out, func(a, b int) bool { return c22Count(out[a]) < c22Count(out[b]) })
	return out
}

func c22Count(v []int) int {
	n := 0
	for _, x := range v {
		if x != 0 {
			n++
		}
	}
	return n
}

// c22Sessions lists all sessions (driver, steps) for a module set, shortest first.
type c22Sess struct {
	d     c22Driver
	steps []c22Step
}

func c22Sessions(set []int, maxSteps int, drivers string) []c22Sess {
	present := map[int]bool{}
	for _, p := range set {
		present[p] = true
	}
	var fileSyms, cwdSyms []c22Step
	for _, p := range set {
		fileSyms = append(fileSyms, c22Step{c22Rel, p}, c22Step{c22Lib, p})
	}
	cwdSyms = append(cwdSyms, fileSyms...)
	for p := 0; p < 4; p++ {
		if !present[p] && present[(p+2)%4] {
			cwdSyms = append(cwdSyms, c22Step{c22Rel, p}) // absent twin of a present module
		}
	}
	cwdSyms = append(cwdSyms, c22Step{Op: c22Toggle})
	var out []c22Sess
	for n := 1; n <= maxSteps; n++ {
		idx := make([]int, n)
		needToggle := drivers == "cd"
		gen := func(syms []c22Step, drivers []c22Driver) {
			for i := range idx {
				idx[i] = 0
			}
			for {
				steps := make([]c22Step, n)
				ok := true
				for i, x := range idx {
					steps[i] = syms[x]
					if steps[i].Op == c22Toggle && (i == n-1 || i > 0 && steps[i-1].Op == c22Toggle) {
						ok = false
					}
				}
				if ok && needToggle {
					ok = false
					for _, st := range steps {
						if st.Op == c22Toggle {
							ok = true
						}
					}
				}
				if ok {
					for _, d := range drivers {
						if d.RC <= n {
							out = append(out, c22Sess{d, steps})
						}
					}
				}
				x := n - 1
				for ; x >= 0; x-- {
					idx[x]++
					if idx[x] < len(syms) {
						break
					}
					idx[x] = 0
				}
				if x < 0 {
					return
				}
			}
		}
		switch drivers {
		case "all":
			gen(fileSyms, []c22Driver{{Kind: 'S', Loc: 0}, {Kind: 'S', Loc: 1}, {Kind: 'S', Loc: 2}})
			gen(cwdSyms, []c22Driver{{Kind: 'C'}, {Kind: 'T', RC: 0}, {Kind: 'T', RC: 1}})
		case "cd":
			gen(cwdSyms, []c22Driver{{Kind: 'C'}, {Kind: 'T', RC: 0}, {Kind: 'T', RC: 1}})
		case "two":
			gen(fileSyms, []c22Driver{{Kind: 'S', Loc: 1}, {Kind: 'T', RC: 0}})
		default:
			gen(fileSyms, []c22Driver{{Kind: 'T', RC: 0}})
		}
	}
	return out
}

// ---- violation classification ---------------------------------------------

func c22EvKind(s string) string {
	if s == "" {
		return "end"
	}
	switch s[0] {
	case 'E':
		return "eval"
	case 'O':
		return "obs"
	case 'X':
		return "failpoint"
	}
	if s == "R ok" {
		return "ok"
	}
	if i := strings.IndexByte(s, ':'); i > 0 {
		return "exc-" + s[2:i]
	}
	return "exc-" + s[2:]
}

func c22Diff(got, want, origins []string) (key, detail string) {
	k, step := 0, 0
	for k < len(got) && k < len(want) && got[k] == want[k] {
		if want[k][0] == 'R' {
			step++
		}
		k++
	}
	if k == len(got) && k == len(want) {
		return "", ""
	}
	g, w := "", ""
	if k < len(got) {
		g = got[k]
	}
	if k < len(want) {
		w = want[k]
	}
	origin := "end"
	if step < len(origins) {
		origin = origins[step]
	}
	gk, wk := c22EvKind(g), c22EvKind(w)
	name := "want-" + wk + "-got-" + gk
	switch {
	case wk == "eval" && gk == "eval":
		name = "wrong-module-evaluated"
	case wk == "obs" && gk == "obs":
		wf, gf := strings.Fields(w), strings.Fields(g)
		if wf[1] == gf[1] && wf[2] == gf[2] {
			name = "namespace-not-shared"
		} else {
			name = "wrong-observation"
		}
	case wk == "obs" && gk == "eval":
		name = "module-evaluated-again"
	case wk == "eval" && (gk == "obs" || gk == "ok"):
		name = "module-not-evaluated"
	case wk == "exc-nosuch" && (gk == "obs" || gk == "eval"):
		name = "missing-module-resolved"
	case strings.HasPrefix(gk, "exc-") && !strings.HasPrefix(wk, "exc-"):
		name = "unexpected-exception-" + gk[4:]
	}
	return origin + ":" + name, fmt.Sprintf("log differs at event %d (import step %d, from %s): got %q, want %q", k, step+1, origin, g, w)
}

// ---- worker process --------------------------------------------------------

type c22Viol struct {
	Key    string `json:"key"`
	Msg    string `json:"msg"`
	Replay any    `json:"replay"`
	Size   int    `json:"size"`
	Ord    int64  `json:"ord"`
}

type c22Result struct {
	Evals   int64               `json:"evals"`
	Classes map[string]int64    `json:"classes"`
	Viols   map[string]*c22Viol `json:"viols"`
	Capped  bool                `json:"capped"`
	Graphs  int64               `json:"graphs"`
	Samples []any               `json:"samples"`
	Err     string              `json:"err"`
}

func c22Class(g *c22Cfg, d c22Driver, steps []c22Step, want []string) string {
	var kinds [4]int
	for _, row := range g.edges {
		for _, k := range row {
			kinds[k]++
		}
	}
	self := 0
	for i := range g.edges {
		if g.edges[i][i] != 0 {
			self++
		}
	}
	fm := append([]int{}, g.fail...)
	sort.Ints(fm)
	var res strings.Builder
	ev, re := 0, false
	seen := map[string]bool{}
	for _, e := range want {
		switch e[0] {
		case 'E':
			ev++
			if seen[e] {
				re = true
			}
			seen[e] = true
		case 'R':
			res.WriteByte(e[2]) // o(k) / n(osuch) / f(ail)
		}
	}
	tog := 0
	for _, s := range steps {
		if s.Op == c22Toggle {
			tog++
		}
	}
	return fmt.Sprintf("%s n%d e%d.%d.%d s%d f%v t%d ev%d re%v r%s", d, len(g.set), kinds[1], kinds[2], kinds[3], self, fm, tog, ev, re, res.String())
}

func c22WorkerMain() {
	var k, n int
	fmt.Sscanf(os.Getenv("C22_WORKER"), "%d/%d", &k, &n)
	tier := os.Getenv("VERIF_TIER")
	deadline, _ := strconv.ParseInt(os.Getenv("C22_DEADLINE"), 10, 64)
	res := &c22Result{Classes: map[string]int64{}, Viols: map[string]*c22Viol{}}
	emit := func() {
		data, _ := json.Marshal(res)
		fmt.Printf("\nC22RESULT %s\n", data)
	}
	defer func() {
		if r := recover(); r != nil {
			buf := make([]byte, 8192)
			buf = buf[:runtime.Stack(buf, false)]
			res.Err = fmt.Sprintf("panic in worker: %v\n%s", r, buf)
			emit()
		}
	}()
	interactiveRescueShell = false
	root := filepath.Join(os.Getenv("VERIF_SCRATCH"), "c22", fmt.Sprintf("w%d", k))
	if err := os.MkdirAll(filepath.Join(root, "lib", "d"), 0o755); err != nil {
		panic(err)
	}
	devnull, err := os.OpenFile(os.DevNull, os.O_RDWR, 0)
	if err != nil {
		panic(err)
	}
	w := &c22Worker{root: root, files: map[string]string{}, devnull: devnull}

	// watchdog: a case that does not return is a violation (totality of use)
	var curMu sync.Mutex
	var cur string
	var curStart time.Time
	go func() {
		for {
			time.Sleep(5 * time.Second)
			curMu.Lock()
			c, st := cur, curStart
			curMu.Unlock()
			if c != "" && time.Since(st) > 120*time.Second {
				res2 := &c22Result{Classes: map[string]int64{}, Viols: map[string]*c22Viol{
					"nontermination": {Key: "nontermination", Msg: "case did not finish within 120 s: " + c, Replay: c}}, Capped: true}
				data, _ := json.Marshal(res2)
				fmt.Printf("\nC22RESULT %s\n", data)
				os.Exit(0)
			}
		}
	}()

	var ord int64
	var unit int64
	for _, b := range c22BoundsFor(tier) {
		for _, set := range b.Sets {
			sessions := c22Sessions(set, b.Steps, b.Drivers)
			fails := c22Fails(len(set), b.MaxFail)
			c22Graphs(b, set, func(edges [][]int, ne int) {
				unit++
				base := ord
				ord += int64(len(fails)) * int64(len(sessions))
				if int(unit%int64(n)) != k || res.Capped {
					return
				}
				if deadline > 0 && time.Now().Unix() > deadline {
					res.Capped = true
					return
				}
				res.Graphs++
				g := &c22Cfg{set: set, edges: edges}
				w.install(g)
				for fi, fail := range fails {
					g.fail = fail
					for si, s := range sessions {
						rc, lines, want, origins := c22Session(g, s.d, s.steps, w)
						curMu.Lock()
						cur, curStart = fmt.Sprintf("set %v edges %v fail %v driver %s code %q rc %q", set, edges, fail, s.d, lines, rc), time.Now()
						curMu.Unlock()
						var got []string
						if p := vk.Try(func() { got = w.run(g, s.d, rc, lines) }); p != "" {
							got = []string{"PANIC " + vk.PanicSite(p)}
						}
						curMu.Lock()
						cur = ""
						curMu.Unlock()
						res.Evals++
						res.Classes[c22Class(g, s.d, s.steps, want)]++
						key, detail := c22Diff(got, want, origins)
						if len(got) > 0 && strings.HasPrefix(got[0], "PANIC ") {
							key, detail = "panic:"+got[0][6:], got[0]
						}
						if key != "" {
							size := len(set)*4 + ne*2 + c22Count(fail)*2 + len(s.steps)*3
							o := base + int64(fi)*int64(len(sessions)) + int64(si)
							if v := res.Viols[key]; v == nil || size < v.Size || size == v.Size && o < v.Ord {
								files := map[string]string{}
								for i, p := range set {
									files[c22Paths[p]+".elv"] = g.moduleCode(i)
								}
								failNames := map[string]string{}
								for i, p := range set {
									failNames[c22Paths[p]] = []string{"never", "always", "first evaluation only"}[fail[i]]
								}
								desc := fmt.Sprintf("module files %v (module search directory lib; c22fin fails: %v); front end %s", files, failNames, s.d)
								if rc != "" {
									desc += fmt.Sprintf("; rc file lib/d/rc.elv %q", rc)
								}
								desc += fmt.Sprintf("; code (initial working directory lib) %q: %s; observed log %v, documented cache model demands %v", lines, detail, got, want)
								res.Viols[key] = &c22Viol{Key: key, Msg: desc, Size: size, Ord: o,
									Replay: map[string]any{"files": files, "fail": failNames, "driver": s.d.String(), "rc": rc, "code": lines, "got": got, "want": want}}
							}
						}
						if len(res.Samples) < 2 && ne >= 2 && len(s.steps) >= 2 && k == 0 {
							res.Samples = append(res.Samples, map[string]any{"set": set, "edges": edges, "fail": fail, "driver": s.d.String(), "rc": rc, "code": lines, "log": got})
						}
					}
				}
			})
		}
	}
	emit()
}

// ---- master ----------------------------------------------------------------

func c22SelfCheck() string {
	dirs := []string{"lib", "lib/d", ""}
	for from := 0; from < 3; from++ {
		for p := 0; p < 4; p++ {
			for _, u := range []bool{false, true} {
				spec := c22RelSpec(from, p, u)
				if !strings.HasPrefix(spec, "./") && !strings.HasPrefix(spec, "../") {
					return fmt.Sprintf("spec %q is not relative", spec)
				}
				if got := c22Resolve(dirs[from], spec); got != c22Paths[p] {
					return fmt.Sprintf("spec %q from %q resolves to %q, want %q", spec, dirs[from], got, c22Paths[p])
				}
			}
		}
	}
	return ""
}

func TestVerifC22(t *testing.T) {
	if os.Getenv("C22_WORKER") != "" {
		c22WorkerMain()
		return
	}
	vk.Run(t, "C22", "exploration", func(c *vk.Ctx) {
		blocks := c22BoundsFor(c.Tier)
		var bs []string
		for _, b := range blocks {
			bs = append(bs, b.String())
		}
		c.Rule("module files among " + fmt.Sprint(c22Paths) + " (.elv; lib is the module search directory); blocks " + strings.Join(bs, ", ") +
			": every assignment of {no import, relative import, search-directory import[, relative import with a redundant d/.. component]} to every ordered pair of modules, every assignment of {never fails, always fails after its imports, fails on first evaluation only} to the modules, and every session: sequences of steps {import module X relatively, import X by search directory, (non-file code only:) import the absent twin of a present module relatively, cd to the other one of lib and lib/d}, each run in a fresh interpreter as a script file in lib, lib/d or their parent, as -c code, as prompt lines, and as an rc file (first step) followed by prompt lines; graphs in odometer order, sessions shortest first; class = (front end, modules, edges per kind, self-imports, failure modes, cds, evaluations demanded, re-evaluation demanded, outcome of each import)")
		c.Assume("the evaluation count and the shared namespace are observed through harness builtins (c22ev at module start, c22obs incrementing the imported namespace's variable c and logging it, c22fin raising the module's failure) added with Evaler.ExtendBuiltin",
			"sessions run through the real front ends script() and interact() of pkg/shell with a fresh Evaler per case; cases are sharded over worker processes because the working directory is process-global",
			"not covered: concurrent imports (C39), plugin (.so) modules, bundled modules, symbolic links, several search directories, module specs outside the alphabet",
			"a module whose evaluation count exceeds 20 in one interpreter is stopped by the harness builtin (horizon) and reported")
		if msg := c22SelfCheck(); msg != "" {
			fmt.Printf("HARNESS-ERROR property=C22 spec generator self-check: %s\n", msg)
			os.Exit(3)
		}
		self := os.Getenv("VERIF_SELF")
		if self == "" {
			self, _ = os.Executable()
		}
		n := vk.Workers()
		if n > 16 {
			n = 16
		}
		if n < 1 {
			n = 1
		}
		budget := vk.Pick(c, 200, 1300)
		if s := os.Getenv("VERIF_BUDGET_S"); s != "" {
			if v, _ := strconv.Atoi(s); v > 0 {
				budget = v
			}
		}
		deadline := time.Now().Add(time.Duration(budget) * time.Second).Unix()
		results := make([]*c22Result, n)
		errs := make([]string, n)
		var wg sync.WaitGroup
		for k := 0; k < n; k++ {
			wg.Add(1)
			go func(k int) {
				defer wg.Done()
				cmd := exec.Command(self, "-test.run", "^TestVerifC22$", "-test.timeout", "0")
				cmd.Env = append(os.Environ(), fmt.Sprintf("C22_WORKER=%d/%d", k, n), fmt.Sprintf("C22_DEADLINE=%d", deadline), "GOMAXPROCS=1")
				cmd.Stderr = os.Stderr
				out, err := cmd.StdoutPipe()
				if err != nil {
					errs[k] = err.Error()
					return
				}
				if err := cmd.Start(); err != nil {
					errs[k] = "cannot start worker: " + err.Error()
					return
				}
				rd := bufio.NewReaderSize(out, 1<<20)
				var tail []string
				for {
					line, err := rd.ReadString('\n')
					if strings.HasPrefix(line, "C22RESULT ") {
						var r c22Result
						if e := json.Unmarshal([]byte(line[10:]), &r); e == nil {
							results[k] = &r
						} else {
							errs[k] = "bad result: " + e.Error()
						}
					} else if strings.TrimSpace(line) != "" {
						tail = append(tail, strings.TrimSpace(line))
						if len(tail) > 20 {
							tail = tail[1:]
						}
					}
					if err != nil {
						break
					}
				}
				werr := cmd.Wait()
				if results[k] == nil && errs[k] == "" {
					errs[k] = fmt.Sprintf("worker %d gave no result (%v); last output: %s", k, werr, strings.Join(tail, " | "))
				}
			}(k)
		}
		wg.Wait()
		best := map[string]*c22Viol{}
		var graphs int64
		for k := 0; k < n; k++ {
			if errs[k] != "" {
				fmt.Printf("HARNESS-ERROR property=C22 %s\n", errs[k])
				os.Exit(3)
			}
			r := results[k]
			if r.Err != "" {
				fmt.Printf("HARNESS-ERROR property=C22 worker %d: %s\n", k, r.Err)
				os.Exit(3)
			}
			l := vk.NewLocal()
			l.Evals = r.Evals
			for cl, cnt := range r.Classes {
				l.Classes[cl] = cnt
			}
			c.Merge(l)
			graphs += r.Graphs
			if r.Capped {
				c.Capped("time budget reached in a worker process")
			}
			for key, v := range r.Viols {
				if b := best[key]; b == nil || v.Size < b.Size || v.Size == b.Size && v.Ord < b.Ord {
					best[key] = v
				}
			}
			for _, s := range r.Samples {
				c.Sample(s)
			}
		}
		keys := make([]string, 0, len(best))
		for key := range best {
			keys = append(keys, key)
		}
		sort.Slice(keys, func(a, b int) bool {
			x, y := best[keys[a]], best[keys[b]]
			if x.Size != y.Size {
				return x.Size < y.Size
			}
			return x.Ord < y.Ord
		})
		for _, key := range keys {
			c.Violate(key, best[key].Msg, best[key].Replay)
		}
		c.Set("module_graphs", graphs)
		c.Set("worker_processes", n)
		c.Set("blocks", bs)
	})
}
