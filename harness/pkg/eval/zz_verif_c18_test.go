//go:build verif

package eval

import (
	"fmt"
	"strings"
	"testing"

	"src.elv.sh/pkg/zzverif/vk"
	"src.elv.sh/pkg/zzverif/vsched"
	"src.elv.sh/pkg/zzverif/vshard"
)

type c18Prog struct {
	name, code string
	// want is the set of admissible result lines (sequential semantics; several
	// when the interleaving of the value and byte bands is unspecified).
	want  []string
	bound int
}

func c18Seq(n int) string {
	var p []string
	for i := 0; i < n; i++ {
		p = append(p, fmt.Sprintf("(num %d)", i))
	}
	return "[" + strings.Join(p, " ") + "]"
}

// c18Long is a pipeline whose first byte line has n bytes: the reader must see that line and the two after it.
func c18Long(name string, n int) c18Prog {
	code := fmt.Sprintf("var s = ''; var p = x; var n = %d; while (> $n 0) { if (== (%% $n 2) 1) { set s = $s$p }; set p = $p$p; set n = (/ (- $n (%% $n 2)) 2) }; print $s\"\\nsecond\\nthird\\n\" | each {|l| put (count $l) }", n)
	return c18Prog{name, code, []string{fmt.Sprintf("result err=ok values=[(num %d) (num 6) (num 5)] bytes=%q", n, "")}, 1}
}

func c18Progs() []c18Prog {
	res := func(err, values, bytes string) string {
		return fmt.Sprintf("result err=%s values=%s bytes=%q", err, values, bytes)
	}
	return []c18Prog{
		{"values-in-order", "put a b c | each {|x| put $x }", []string{res("ok", "[a b c]", "")}, 0},
		{"more-than-buffer", "range 34 | each {|x| put $x }", []string{res("ok", c18Seq(34), "")}, 1},
		{"drain-after-take", "range 40 | take 1", []string{res("ok", "[(num 0)]", "")}, 1},
		{"reader-never-reads-full-buffer", "range 40 | nop", []string{res("ok", "[]", "")}, 1},
		{"reader-exits-early-bytes-and-values", "{ range 34; echo x } | put y", []string{res("ok", "[y]", "")}, 1},
		{"reader-reads-nothing", "put a b | nop", []string{res("ok", "[]", "")}, 0},
		{"byte-lines", "{ echo a; echo b } | each {|x| put $x }", []string{res("ok", "[a b]", "")}, 0},
		{"both-bands", "{ put a; echo b; put c } | each {|x| put $x }",
			[]string{res("ok", "[a b c]", ""), res("ok", "[a c b]", ""), res("ok", "[b a c]", "")}, 0},
		{"middle-fails", "put a | fail x | put c", []string{res("pipeline[exc:x]", "[c]", ""), res("exc:x", "[c]", "")}, 0},
		{"two-fail", "fail x | fail y", []string{res("pipeline[exc:x,exc:y]", "[]", "")}, 0},
		{"three-stages", "range 3 | each {|x| put $x } | count", []string{res("ok", "[(num 3)]", "")}, 0},
		{"early-exit-middle", "range 40 | take 2 | each {|x| put $x }", []string{res("ok", "[(num 0) (num 1)]", "")}, 1},
		{"bytes-through", "echo hi | each {|x| echo $x }", []string{res("ok", "[]", "hi\n")}, 0},
		// redirections applied to the pipe ends of a stage
		{"writer-dups-stderr-over-piped-stdout", "echo to-stderr >&2 | each {|x| put got-$x }; put after", []string{res("ok", "[after]", "")}, 0},
		{"writer-dups-piped-stdout-onto-itself", "put a >&1 | each {|x| put got-$x }; put after", []string{res("ok", "[got-a after]", "")}, 0},
		{"writer-closes-piped-stdout", "put a >&- | each {|x| put got-$x }; put after", []string{res("ok", "[after]", ""), res("exc:port does not support value output", "[after]", ""), res("pipeline[exc:port does not support value output]", "[after]", ""), res("exc:port does not support value output", "[]", ""), res("pipeline[exc:port does not support value output]", "[]", "")}, 0},
		{"reader-closes-piped-stdin", "put a b | each {|x| put got-$x } <&-; put after", []string{res("ok", "[after]", "")}, 0},
		// byte lines around the buffer sizes of the reading side (bufio 4096) and beyond the capacity of the OS pipe
		// (65536): the writer then has to wait for the reader in the middle of a line (file writes are scheduling points)
		c18Long("line-4095", 4095), c18Long("line-4096", 4096), c18Long("line-4097", 4097),
		c18Long("line-65535", 65535), c18Long("line-65536", 65536), c18Long("line-65537", 65537), c18Long("line-140000", 140000),
		{"writer-fails-after-output", "{ put a; fail x } | each {|x| put $x }", []string{res("exc:x", "[a]", ""), res("pipeline[exc:x]", "[a]", "")}, 0},
	}
}

func c18Scenarios() []vshard.Scenario {
	var scs []vshard.Scenario
	for _, p := range c18Progs() {
		p := p
		if p.bound > 0 && os_Getenv("VERIF_TIER") == "thorough" {
			p.bound++ // the long programs run one bound below the others in both tiers
		}
		scs = append(scs, vshard.Scenario{
			Name:  p.name,
			Body:  vsEvalBody(p.code, nil),
			Bound: p.bound,
			Oracle: func(r *vsched.Result) (string, string) {
				if k, m := vsBasic(r); k != "" {
					return k, m
				}
				got := vsLast(r.Log, "result ")
				for _, w := range p.want {
					if got == w {
						return "", ""
					}
				}
				return "wrong-result:" + p.name, fmt.Sprintf("program %q: got %q, want one of %q", p.code, got, p.want)
			},
		})
	}
	return scs
}

func TestVerifC18(t *testing.T) {
	cfg := vshard.Config{Delay: true, Bound: 2, MaxPoints: 5000}
	if os_Getenv("VERIF_TIER") == "thorough" {
		cfg.Bound = 3
	}
	if vshard.IsWorker() {
		vshard.Serve(c18Scenarios(), cfg)
		return
	}
	vk.Run(t, "C18", "exploration", func(c *vk.Ctx) {
		c.Rule("every schedule of the real Evaler running each of 25 pipeline programs (values, byte lines, both bands, more values than the 32-slot channel, early-exiting readers, failing stages, fd redirections applied to the pipe ends of a stage, byte lines of 4095..140000 bytes, i.e. around the reader's buffer sizes and beyond the OS pipe capacity), at synchronisation granularity (channel ops, select, mutex, waitgroup, atomics, pipe reads), with at most `bound` departures from the default goroutine (delay bounding; bound 2, 1 for the three long programs); class = distinct (program, observation log)")
		c.Assume("pkg/eval and pkg/eval/vars are rewritten so that their synchronisation goes through the controlled scheduler; x/sync/semaphore is compiled from its real source the same way",
			"memory-model effects below synchronisation granularity and schedules beyond the bound are not explored",
			"pipe reads are gated by poll(2); pipe writes of the byte-output port are split into chunks of <=4096 bytes, each a scheduling point gated by poll(2) POLLOUT, so a writer facing a full pipe yields to the reader")
		vshard.Run(c, c18Scenarios(), cfg)
	})
}
