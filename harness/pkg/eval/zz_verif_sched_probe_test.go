//go:build verif

package eval

import (
	"fmt"
	"time"
	"testing"

	"src.elv.sh/pkg/parse"
	"src.elv.sh/pkg/zzverif/vsched"
)

func TestVerifSchedProbe(t *testing.T) {
	vsched.External(BlackholeChan)
	body := func() {
		ev := NewEvaler()
		port, collect, err := CapturePort()
		if err != nil {
			panic(err)
		}
		ports := []*Port{DummyInputPort, port, DummyOutputPort}
		err = ev.Eval(parse.Source{Name: "v", Code: "put a b c | each {|x| put $x }; echo hi"}, EvalCfg{Ports: ports})
		vs, bs := collect()
		vsched.Logf("err=%v values=%v bytes=%q", err, vs, bs)
	}
	r := vsched.Run(nil, 5000, body)
	fmt.Println(r.Log, "points", len(r.Points), "deadlock", r.Deadlock, r.Blocked, "g", r.NG)
	for _, b := range []int{0, 1, 2} {
		for _, delay := range []bool{true, false} {
			t0 := time.Now()
			x := &vsched.Explorer{Delay: delay, Bound: b, MaxPoints: 5000, Body: body, Stop: func() bool { return time.Since(t0) > 100*time.Second }}
			outs := map[string]int{}
			x.Check = func(r *vsched.Result) { outs[fmt.Sprint(r.Log, r.Deadlock)]++ }
			x.Explore(nil)
			fmt.Println("delay", delay, "bound", b, "executions", x.Executions, "capped", x.Capped, "maxpts", x.MaxPts, "outs", outs, x.Diverged, time.Since(t0))
		}
	}
}
