//go:build verif

package eval

import (
	"fmt"
	"testing"

	"src.elv.sh/pkg/parse"
	"src.elv.sh/pkg/zzverif/vsched"
)

func TestVerifSchedProbe(t *testing.T) {
	vsched.External(BlackholeChan)
	body := func() {
		ev := NewEvaler()
		port, collect, err := CapturePort()
		if err != nil {
			panic(err)
		}
		ports := []*Port{DummyInputPort, port, DummyOutputPort}
		err = ev.Eval(parse.Source{Name: "v", Code: "put a b c | each {|x| put $x }; echo hi"}, EvalCfg{Ports: ports})
		vs, bs := collect()
		vsched.Logf("err=%v values=%v bytes=%q", err, vs, bs)
	}
	r := vsched.Run(nil, 5000, body)
	fmt.Println(r.Log, "points", len(r.Points), "deadlock", r.Deadlock, r.Blocked, "g", r.NG)
	x := &vsched.Explorer{Bound: 1, MaxPoints: 5000, Body: body}
	outs := map[string]int{}
	x.Check = func(r *vsched.Result) { outs[fmt.Sprint(r.Log, r.Deadlock)]++ }
	x.Explore(nil)
	fmt.Println("executions", x.Executions, "maxpts", x.MaxPts, "outs", outs, x.Diverged)
}
