//go:build verif

package eval

import (
	"fmt"
	"os"
	"sort"
	"strings"

	"src.elv.sh/pkg/eval/vals"
	"src.elv.sh/pkg/parse"
	"src.elv.sh/pkg/zzverif/vsched"
)

func init() { vsched.External(BlackholeChan) }

// vsStderr is a writable stderr port (DummyOutputPort's file is /dev/null opened read-only).
var vsStderr = func() *Port {
	f, err := os.OpenFile(os.DevNull, os.O_WRONLY, 0)
	if err != nil {
		panic(err)
	}
	return &Port{File: f, Chan: BlackholeChan}
}()

// vsErrString renders an evaluation error canonically: the reasons of a
// pipeline error are listed in stage order.
func vsErrString(err error) string {
	if err == nil {
		return "ok"
	}
	if exc, ok := err.(Exception); ok {
		if pe, ok := exc.Reason().(PipelineError); ok {
			var parts []string
			for _, e := range pe.Errors {
				parts = append(parts, vsErrString(e))
			}
			return "pipeline[" + strings.Join(parts, ",") + "]"
		}
		return "exc:" + exc.Reason().Error()
	}
	return "err:" + err.Error()
}

func vsValues(vs []any) string {
	var parts []string
	for _, v := range vs {
		parts = append(parts, vals.ReprPlain(v))
	}
	return "[" + strings.Join(parts, " ") + "]"
}

// vsEvalBody returns an execution body: a fresh Evaler evaluates code with
// capturing stdout (values and bytes); the observation is logged.
func vsEvalBody(code string, setup func(ev *Evaler)) func() {
	return func() {
		ev := NewEvaler()
		if setup != nil {
			setup(ev)
		}
		port, collect, err := CapturePort()
		if err != nil {
			panic(err)
		}
		err = ev.Eval(parse.Source{Name: "v", Code: code}, EvalCfg{Ports: []*Port{DummyInputPort, port, vsStderr}})
		vs, bs := collect()
		vsched.Logf("result err=%s values=%s bytes=%q", vsErrString(err), vsValues(vs), bs)
	}
}

func vsLast(log []string, prefix string) string {
	for i := len(log) - 1; i >= 0; i-- {
		if strings.HasPrefix(log[i], prefix) {
			return log[i]
		}
	}
	return ""
}

func vsBasic(r *vsched.Result) (string, string) {
	if r.Deadlock {
		return "deadlock", fmt.Sprintf("no goroutine can proceed; blocked: %v", r.Blocked)
	}
	if r.Panics > 0 {
		for _, l := range r.Log {
			if strings.HasPrefix(l, "PANIC") {
				return "panic:" + vsPanicSite(l), l
			}
		}
		return "panic", "a goroutine panicked"
	}
	return "", ""
}

func vsPanicSite(l string) string {
	// "PANIC in gN: msg @ file.go:123 < ..."
	if i := strings.LastIndex(l, " @ "); i >= 0 {
		site := l[i+3:]
		if j := strings.Index(site, " <"); j >= 0 {
			site = site[:j]
		}
		if j := strings.Index(site, ":"); j >= 0 {
			site = site[:j]
		}
		return site
	}
	return "unknown"
}

func vsSortedKeys(m map[string]bool) []string {
	var ks []string
	for k := range m {
		ks = append(ks, k)
	}
	sort.Strings(ks)
	return ks
}

func os_Getenv(k string) string { return os.Getenv(k) }
