//go:build verif

package eval

import (
	"context"
	"fmt"
	"os"
	"path/filepath"
	"sort"
	"strings"
	"testing"

	"src.elv.sh/pkg/parse"
	"src.elv.sh/pkg/zzverif/vk"
	"src.elv.sh/pkg/zzverif/vsched"
	"src.elv.sh/pkg/zzverif/vshard"
)

func c40Fds() string {
	ents, err := os.ReadDir("/proc/self/fd")
	if err != nil {
		return "?"
	}
	var fds []string
	for _, e := range ents {
		// the directory handle used for this listing shows up as an entry whose link is /proc/<pid>/fd
		if l, err := os.Readlink("/proc/self/fd/" + e.Name()); err == nil && strings.HasSuffix(l, "/fd") && strings.HasPrefix(l, "/proc/") {
			continue
		}
		fds = append(fds, e.Name())
	}
	sort.Strings(fds)
	return strings.Join(fds, ",")
}

type c40Prog struct {
	name, code string
	interrupt  bool
	late       bool // the interrupter is a low-priority actor (vsched.GoLow): every interrupt position costs one deviation
}

func c40Progs() []c40Prog {
	d := filepath.Join(os.Getenv("VERIF_SCRATCH"), fmt.Sprintf("c40-%d", os.Getpid())) // per process: workers run concurrently
	os.MkdirAll(d, 0o755)
	os.WriteFile(filepath.Join(d, "in"), []byte("l1\nl2\n"), 0o644)
	f := func(n string) string { return filepath.Join(d, n) }
	return []c40Prog{
		{"pipeline-values", "put a b c | each {|x| put $x }", false, false},
		{"pipeline-bytes", "{ echo a; echo b } | each {|x| put $x }", false, false},
		{"early-exit", "range 40 | nop", false, false},
		{"stage-fails", "put a | fail x | put c", false, false},
		{"capture", "put (put a | each {|x| put $x$x })", false, false},
		{"exception-capture", "put ?(fail x | put a)", false, false},
		{"redir-out", "echo hi > " + f("o1"), false, false},
		{"redir-in-out", "each {|x| put $x } < " + f("in") + " > " + f("o2"), false, false},
		{"redir-fails", "fail x > " + f("o3") + " 2> " + f("o4"), false, false},
		{"redir-dup-close", "{ echo a; echo b >&2 } 2>&1 3>&-", false, false},
		{"peach", "put a b | peach {|x| put $x } | count", false, false},
		// builtins that capture the output of a callback internally, with the callback succeeding and failing
		{"order-key", "order &key={|x| put $x } [b a]", false, false},
		{"order-key-fails", "order &key={|x| fail k } [b a]", false, false},
		{"order-less-than-fails", "order &less-than={|a b| fail k } [b a]", false, false},
		{"keep-if-fails", "put a b | keep-if {|x| fail k }", false, false},
		{"keep-if", "put a b | keep-if {|x| put $true }", false, false},
		{"styled-transformer-fails", "put (styled x {|s| fail k })", false, false},
		{"capture-fails-midway", "put (put a; fail x)", false, false},
		{"nested-capture-fails", "put [(put a | each {|x| put (fail y) })]", false, false},
		{"interrupted-pipeline", "range 4 | each {|x| put $x } | count", true, false},
		{"interrupted-redir", "range 3 | each {|x| echo $x } > " + f("o5"), true, false},
		{"interrupted-peach", "range 3 | peach &num-workers=2 {|x| put $x }", true, false},
	}
}

func c40Body(p c40Prog) func() {
	return func() {
		before := c40Fds()
		ev := NewEvaler()
		port, collect, err := CapturePort()
		if err != nil {
			panic(err)
		}
		cfg := EvalCfg{Ports: []*Port{DummyInputPort, port, DummyOutputPort}}
		if p.interrupt {
			ctx, cancel := context.WithCancel(context.Background())
			defer cancel()
			if p.late {
				vsched.GoLow(func() { cancel() })
			} else {
				vsched.Go(func() { cancel() })
			}
			cfg.Interrupts = ctx
		}
		err = ev.Eval(parse.Source{Name: "v", Code: p.code}, cfg)
		collect()
		after := c40Fds()
		vsched.Logf("result err=%s", vsErrString(err))
		// descriptors open now that were not open before (numbers are not logged: they
		// differ between replays once something has leaked)
		was := map[string]bool{}
		for _, fd := range strings.Split(before, ",") {
			was[fd] = true
		}
		leaked := 0
		for _, fd := range strings.Split(after, ",") {
			if !was[fd] {
				leaked++
			}
		}
		if leaked > 0 {
			vsched.Logf("FDLEAK %d descriptor(s) opened during the evaluation are still open", leaked)
		}
	}
}

func c40Scenarios() []vshard.Scenario {
	var scs []vshard.Scenario
	progs := c40Progs()
	for _, p := range c40Progs() {
		if p.interrupt {
			p.name += "/late"
			p.late = true
			progs = append(progs, p)
		}
	}
	for _, p := range progs {
		p := p
		scs = append(scs, vshard.Scenario{
			Name: p.name,
			Body: c40Body(p),
			Oracle: func(r *vsched.Result) (string, string) {
				if r.Deadlock {
					return "goroutine-parked-forever", fmt.Sprintf("program %q: at the end of the execution these goroutines can never proceed: %v", p.code, r.Blocked)
				}
				if k, m := vsBasic(r); k != "" {
					return k, m
				}
				if l := vsLast(r.Log, "FDLEAK"); l != "" {
					return "fd-leak", fmt.Sprintf("program %q: %s", p.code, l)
				}
				return "", ""
			},
			Class: func(r *vsched.Result) string { return vsLast(r.Log, "result ") + vsLast(r.Log, "FDLEAK") },
		})
	}
	return scs
}

func TestVerifC40(t *testing.T) {
	cfg := vshard.Config{Delay: true, Bound: 2, MaxPoints: 8000}
	if os_Getenv("VERIF_TIER") == "thorough" {
		cfg.Bound = 3
	}
	if vshard.IsWorker() {
		vshard.Serve(c40Scenarios(), cfg)
		return
	}
	vk.Run(t, "C40", "exploration", func(c *vk.Ctx) {
		c.Rule("22 programs (pipelines of values and bytes, early exit, failing stages, output and exception capture, builtins that capture a callback's output (order &key/&less-than, keep-if, styled) with failing callbacks, file redirections incl. dup/close, peach; three of them with an interrupt placed by the scheduler at every point, each both with the interrupter as an ordinary goroutine and as a low-priority actor whose step costs one deviation wherever it is placed) on the real Evaler; every schedule with <=2 departures from the default goroutine; on each: the set of open file descriptors after Eval returned equals the set before, and no goroutine is left parked; then each program is evaluated 200 times in one free-running process and the descriptor set must be the same after every iteration; class = distinct (program, result, blocking profile)")
		c.Assume("pkg/eval rewritten for the controlled scheduler; descriptors are observed through /proc/self/fd; background jobs and explicit file opens are outside the property and not generated")
		vshard.Run(c, c40Scenarios(), cfg)
		// sequential repetition on the real primitives (outside the scheduler)
		reps := vk.Pick(c, 200, 1000)
		for _, p := range c40Progs() {
			if p.interrupt {
				continue
			}
			first := ""
			for i := 0; i < reps; i++ {
				ev := NewEvaler()
				port, collect, _ := CapturePort()
				ev.Eval(parse.Source{Name: "v", Code: p.code}, EvalCfg{Ports: []*Port{DummyInputPort, port, DummyOutputPort}})
				collect()
				fds := c40Fds()
				if i == 0 {
					first = fds
				} else if fds != first {
					c.Violate("fd-growth-over-repetitions", fmt.Sprintf("program %q: descriptor set after iteration %d is %s, after the first it was %s", p.code, i, fds, first), p.code)
					break
				}
				c.Case("")
			}
		}
		c.Set("sequential_repetitions_per_program", reps)
	})
}
