//go:build verif

package eval

import (
	"fmt"
	"os"
	"path/filepath"
	"sort"
	"strings"
	"testing"

	"src.elv.sh/pkg/parse"
	"src.elv.sh/pkg/zzverif/vk"
	"src.elv.sh/pkg/zzverif/vsched"
	"src.elv.sh/pkg/zzverif/vshard"
)

// c39Actor is one concurrent use of the shared Evaler.
type c39Actor struct {
	name  string
	code  string // evaluated with Eval; "" for check
	check string // source for Evaler.Check
	snap  bool   // evaluate with EvalCfg.Global set to the namespace snapshot taken after the setup (what eval &ns= and editor callbacks do)
}

type c39Scen struct {
	name   string
	setup  []string // evaluated sequentially before the actors start
	actors []c39Actor
	final  string // evaluated after all actors finished
	// serial outcomes: computed by running every permutation of the actors sequentially
	serial map[string]bool
}

var c39Dir string

func c39Setup() {
	c39Dir = filepath.Join(os.Getenv("VERIF_SCRATCH"), "c39lib")
	os.MkdirAll(c39Dir, 0o755)
	// The master and all worker processes call this; a file is only ever created
	// complete (write + rename), never rewritten in place, so that a worker that
	// is reading a module never sees a truncated file.
	write := func(name, content string) {
		path := filepath.Join(c39Dir, name)
		if old, err := os.ReadFile(path); err == nil && string(old) == content {
			return
		}
		tmp := fmt.Sprintf("%s.%d.tmp", path, os.Getpid())
		os.WriteFile(tmp, []byte(content), 0o644)
		os.Rename(tmp, path)
	}
	write("ma.elv", "var v = a\nfn f { put fa }\n")
	write("mb.elv", "var v = b\n")
	write("mc.elv", "use ma\nvar v = c$ma:v\n")
}

func c39Scens() []*c39Scen {
	A := func(name, code string) c39Actor { return c39Actor{name: name, code: code} }
	S := func(name, code string) c39Actor { return c39Actor{name: name, code: code, snap: true} }
	return []*c39Scen{
		{name: "two-definitions", actors: []c39Actor{A("A", "var x = 1"), A("B", "var y = 2")}, final: "put $x $y"},
		{name: "set-vs-read", setup: []string{"var x = 1"}, actors: []c39Actor{A("A", "set x = 2"), A("B", "put $x")}, final: "put $x"},
		{name: "use-different-modules", actors: []c39Actor{A("A", "use ma; put $ma:v"), A("B", "use mb; put $mb:v")}, final: "use ma; use mb; put $ma:v $mb:v"},
		{name: "use-same-module", actors: []c39Actor{A("A", "use ma; put $ma:v"), A("B", "use ma; ma:f")}, final: "use ma; put $ma:v"},
		{name: "use-nested-vs-use", actors: []c39Actor{A("A", "use mc; put $mc:v"), A("B", "use ma; put $ma:v")}, final: "put done"},
		{name: "check-vs-use", actors: []c39Actor{A("A", "use ma; put $ma:v"), {name: "B", check: "use mb; put $mb:v $nonexistent"}}, final: "put done"},
		{name: "del-vs-define", setup: []string{"var x = 1"}, actors: []c39Actor{A("A", "del x"), A("B", "var y = 2")}, final: "put $y"},
		{name: "peach-vs-definition", actors: []c39Actor{A("A", "put a b | peach {|v| put $v } | count"), A("B", "var y = 2")}, final: "put $y"},
		// two evaluations that start from the same namespace snapshot (grown by 1..4 earlier evaluations) and each declare a variable
		{name: "snapshot-1-two-definitions", setup: []string{"var p1 = 1"}, actors: []c39Actor{S("A", "var a = from-A; nop; put $a"), S("B", "var b = from-B; nop; put $b")}, final: "put done"},
		{name: "snapshot-3-two-definitions", setup: []string{"var p1 = 1", "var p2 = 2", "var p3 = 3"}, actors: []c39Actor{S("A", "var a = from-A; nop; put $a"), S("B", "var b = from-B; nop; put $b")}, final: "put done"},
		{name: "snapshot-4-two-definitions", setup: []string{"var p1 = 1", "var p2 = 2", "var p3 = 3", "var p4 = 4"}, actors: []c39Actor{S("A", "var a = from-A; nop; put $a"), S("B", "var b = from-B; nop; put $b")}, final: "put done"},
		{name: "snapshot-eval-ns-in-peach", setup: []string{"var p1 = 1", "var p2 = 2", "var p3 = 3"}, actors: []c39Actor{S("A", "var a = from-A; nop; put $a"), A("B", "var n = (ns [&]); eval &ns=$n &on-end={|m| set n = $m } 'var q1 = 1'; eval &ns=$n &on-end={|m| set n = $m } 'var q2 = 1'; eval &ns=$n &on-end={|m| set n = $m } 'var q3 = 1'; put x y | peach {|id| eval &ns=$n 'var w = '$id'; nop; put $w' } | order")}, final: "put done"},
		{name: "three-definitions", actors: []c39Actor{A("A", "var x = 1"), A("B", "var y = 2"), A("C", "fn f { put 3 }")}, final: "put $x $y (f)"},
	}
}

func c39RunActor(ev *Evaler, a c39Actor, g *Ns) string {
	if a.snap {
		return a.name + ": " + c39EvalCfg(ev, a.code, g)
	}
	if a.check != "" {
		perr, _, cerr := ev.Check(parse.Source{Name: "chk", Code: a.check}, nil)
		return fmt.Sprintf("%s: check parse=%v compile=%v", a.name, perr != nil, cerr != nil)
	}
	return a.name + ": " + c39Eval(ev, a.code)
}

func c39Eval(ev *Evaler, code string) string { return c39EvalCfg(ev, code, nil) }

func c39EvalCfg(ev *Evaler, code string, g *Ns) string {
	port, collect, err := CapturePort()
	if err != nil {
		panic(err)
	}
	err = ev.Eval(parse.Source{Name: "v", Code: code}, EvalCfg{Ports: []*Port{DummyInputPort, port, DummyOutputPort}, Global: g})
	vs, _ := collect()
	es := vsErrString(err)
	if err != nil && !strings.HasPrefix(es, "exc:") && !strings.HasPrefix(es, "pipeline") {
		es = "static-error"
	}
	return fmt.Sprintf("err=%s values=%s", es, vsValues(vs))
}

func c39NewEvaler() *Evaler {
	ev := NewEvaler()
	ev.LibDirs = []string{c39Dir}
	return ev
}

// c39Outcome canonicalises the results of all actors plus the final probe.
func c39Outcome(results []string, final string) string {
	sort.Strings(results)
	return strings.Join(results, " ; ") + " ; final: " + final
}

func c39Serial(sc *c39Scen) {
	sc.serial = map[string]bool{}
	n := len(sc.actors)
	perm := make([]int, n)
	for i := range perm {
		perm[i] = i
	}
	var rec func(k int)
	rec = func(k int) {
		if k == n {
			r := vsched.Run(nil, 20000, func() {
				ev := c39NewEvaler()
				for _, s := range sc.setup {
					c39Eval(ev, s)
				}
				g := ev.Global()
				var results []string
				for _, i := range perm {
					results = append(results, c39RunActor(ev, sc.actors[i], g))
				}
				vsched.Logf("outcome %s", c39Outcome(results, c39Eval(ev, sc.final)))
			})
			sc.serial[vsLast(r.Log, "outcome ")] = true
			return
		}
		for i := k; i < n; i++ {
			perm[k], perm[i] = perm[i], perm[k]
			rec(k + 1)
			perm[k], perm[i] = perm[i], perm[k]
		}
	}
	rec(0)
}

func c39Body(sc *c39Scen) func() {
	return func() {
		ev := c39NewEvaler()
		for _, s := range sc.setup {
			c39Eval(ev, s)
		}
		g := ev.Global()
		results := make([]string, len(sc.actors))
		done := 0
		for i, a := range sc.actors[1:] {
			i, a := i+1, a
			vsched.Go(func() {
				results[i] = c39RunActor(ev, a, g)
				done++
			})
		}
		results[0] = c39RunActor(ev, sc.actors[0], g)
		done++
		vsched.WaitUntil("all-actors-done", func() bool { return done == len(sc.actors) })
		vsched.Logf("outcome %s", c39Outcome(results, c39Eval(ev, sc.final)))
	}
}

func c39Scenarios() []vshard.Scenario {
	c39Setup()
	var scs []vshard.Scenario
	for _, sc := range c39Scens() {
		sc := sc
		c39Serial(sc)
		scs = append(scs, vshard.Scenario{
			Name: sc.name,
			Body: c39Body(sc),
			Oracle: func(r *vsched.Result) (string, string) {
				if len(r.Races) > 0 {
					loc := r.Races[0]
					if i := strings.Index(loc, ":"); i >= 0 {
						loc = loc[:i]
					}
					return "data-race:" + loc, fmt.Sprintf("unsynchronised concurrent access: %v", r.Races)
				}
				if k, m := vsBasic(r); k != "" {
					return k, m
				}
				got := vsLast(r.Log, "outcome ")
				if !sc.serial[got] {
					return "not-a-serial-outcome:" + sc.name, fmt.Sprintf("got %q; serial orders give %q", got, vsSortedKeys(sc.serial))
				}
				return "", ""
			},
			Class: func(r *vsched.Result) string { return vsLast(r.Log, "outcome ") + fmt.Sprint(r.Races) },
		})
	}
	return scs
}

func TestVerifC39(t *testing.T) {
	cfg := vshard.Config{Delay: true, Bound: 2, MaxPoints: 20000}
	if os_Getenv("VERIF_TIER") == "thorough" {
		cfg.Bound = 3
	}
	if vshard.IsWorker() {
		vshard.Serve(c39Scenarios(), cfg)
		return
	}
	vk.Run(t, "C39", "exploration", func(c *vk.Ctx) {
		c.Rule(fmt.Sprintf("13 scenarios of 2-3 goroutines using ONE Evaler concurrently (definitions, set vs read, del, use of the same / different / nested file modules, Check vs use, peach, and evaluations that start from one shared namespace snapshot - EvalCfg.Global and eval &ns= inside peach - and each declare variables); every schedule with <=%d departures from the default goroutine; accesses to the Evaler's module table are modelled as non-atomic windows so that an unsynchronised conflicting pair is detected; class = distinct (scenario, outcome, races)", cfg.Bound))
		c.Assume("pkg/eval rewritten for the controlled scheduler; the module table Evaler.modules is the only unsynchronised shared map modelled with access windows (other shared state is reached through locks or atomics, which are scheduling points)",
			"serial reference outcomes are computed by running every permutation of the actors sequentially on a fresh Evaler")
		vshard.Run(c, c39Scenarios(), cfg)
	})
}
