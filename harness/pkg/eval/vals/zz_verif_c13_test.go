//go:build verif

package vals_test

import (
	"fmt"
	"math"
	"math/big"
	"strconv"
	"strings"
	"sync/atomic"
	"testing"

	"src.elv.sh/pkg/eval"
	"src.elv.sh/pkg/eval/vals"
	"src.elv.sh/pkg/eval/vars"
	"src.elv.sh/pkg/parse"
	"src.elv.sh/pkg/zzverif/vk"
)

// ---------------------------------------------------------------------------
// Reference ("what the language reference says"), written from
// website/ref/language.md sections String, List, Indexing and the doc of
// `assoc`. It never looks at the implementation.
//
//   * element index: integer a; a<0 counts from the back; the element must exist.
//   * slice a..b: from element a up to, not including, element b; a defaults to
//     0, b to the length; negative counts from the back.
//   * slice a..=b: like a..b but includes element b.
//   * strings: the same, in bytes; an element index must be where a codepoint
//     starts (result: that codepoint); a slice must begin and end at codepoint
//     boundaries (result: those bytes).
//   * assoc on a list: value at k replaced; k may be negative; slices unsupported.
// ---------------------------------------------------------------------------

const (
	c13Elem       = iota // must return element lo
	c13Slice             // must return [lo,hi)
	c13Err               // must raise an exception
	c13MaybeSlice        // reference silent: exception, or else exactly [lo,hi)
	c13MaybeElem         // reference silent: exception, or else exactly element lo
	c13NJ                // not judged at all (only: no panic)
)

var c13KindName = []string{"elem", "slice", "err", "maybeslice", "maybeelem", "nj"}

type c13Ref struct{ kind, lo, hi int }

const (
	c13IntOK = iota
	c13IntHuge
	c13IntExotic
	c13IntBad
)

// c13ParseInt understands exactly -?[0-9]+ . Other spellings that some number
// parser might take (0x1, +1, 1.0, 1_0) are "exotic": the reference says
// "number-like string" without saying which, so they are not judged.
func c13ParseInt(s string) (int, int) {
	t := s
	neg := false
	if strings.HasPrefix(t, "-") {
		neg = true
		t = t[1:]
	}
	dec := t != ""
	for _, ch := range t {
		if ch < '0' || ch > '9' {
			dec = false
		}
	}
	if dec {
		t = strings.TrimLeft(t, "0")
		if len(t) > 18 {
			return 0, c13IntHuge
		}
		v := 0
		for _, ch := range t {
			v = v*10 + int(ch-'0')
		}
		if neg {
			v = -v
		}
		return v, c13IntOK
	}
	hasDigit := false
	for _, ch := range s {
		if ch >= '0' && ch <= '9' {
			hasDigit = true
		}
		if !strings.ContainsRune("0123456789abcdefABCDEFxXoO_+.-", ch) {
			return 0, c13IntBad
		}
	}
	if hasDigit {
		return 0, c13IntExotic
	}
	return 0, c13IntBad
}

// c13RefInt: element index given as an integer.
func c13RefInt(a, n int) c13Ref {
	if a < 0 {
		if a < -n {
			return c13Ref{kind: c13Err}
		}
		a += n
	}
	if a >= n {
		return c13Ref{kind: c13Err}
	}
	return c13Ref{kind: c13Elem, lo: a}
}

// c13RefText: index given as a string, for a container of n elements/bytes.
func c13RefText(text string, n int) c13Ref {
	k := strings.Index(text, "..")
	if k < 0 {
		v, st := c13ParseInt(text)
		switch st {
		case c13IntExotic:
			return c13Ref{kind: c13NJ}
		case c13IntOK:
			return c13RefInt(v, n)
		}
		return c13Ref{kind: c13Err}
	}
	a, b := text[:k], text[k+2:]
	incl := false
	if strings.HasPrefix(b, "=") {
		incl, b = true, b[1:]
	}
	exotic := false
	lo, hi := 0, n
	maybe := false
	if a != "" {
		v, st := c13ParseInt(a)
		switch st {
		case c13IntExotic:
			exotic = true
		case c13IntOK:
			if v < 0 {
				v += n
			}
			if v < 0 || v > n {
				return c13Ref{kind: c13Err}
			}
			lo = v
		default:
			return c13Ref{kind: c13Err}
		}
	}
	if b == "" {
		// "a..=" : "includes element b" with b omitted is not defined by the reference.
		maybe = incl
	} else {
		v, st := c13ParseInt(b)
		switch st {
		case c13IntExotic:
			exotic = true
		case c13IntOK:
			if v < 0 {
				v += n
			}
			if incl {
				if v >= n || v < -1 {
					return c13Ref{kind: c13Err} // element b does not exist
				}
				// v == -1: "up to and including the element just before the
				// first one" (e.g. ..=-1 on an empty list): not judged.
				hi = v + 1
			} else {
				if v < 0 || v > n {
					return c13Ref{kind: c13Err}
				}
				hi = v
			}
		default:
			return c13Ref{kind: c13Err}
		}
	}
	if exotic {
		return c13Ref{kind: c13NJ}
	}
	if hi < lo || (incl && b != "" && hi == lo) {
		// reversed (or inclusive-but-empty) range: the reference does not say
		// whether that is an empty result or an exception.
		return c13Ref{kind: c13MaybeSlice, lo: lo, hi: lo}
	}
	if maybe {
		return c13Ref{kind: c13MaybeSlice, lo: lo, hi: hi}
	}
	return c13Ref{kind: c13Slice, lo: lo, hi: hi}
}

// ---------------------------------------------------------------------------
// Index enumeration
// ---------------------------------------------------------------------------

type c13Idx struct {
	key   any    // what is passed as the index: string or typed value
	show  string // printable form
	ref   c13Ref
	class string // form/signs/ref kind
	lit   bool   // text usable literally inside $x[...]
}

var c13Misc = []string{"", "a", "-", "1.0", "0x1", "+1", "1_0", " 1", "1 ", "1..2..3", "1...2", "..=..", "=1", "1.=2", "1..=2=",
	"0:1", "9223372036854775807", "9223372036854775808", "-9223372036854775808", "-9223372036854775809",
	"1000000000000000000000000000000", "-1000000000000000000000000000000",
	"0..9223372036854775807", "0..9223372036854775808", "..=9223372036854775807", "..=9223372036854775806",
	"-9223372036854775808..", "..-9223372036854775808", "..=-9223372036854775808", "..=-9223372036854775809",
	"0..1000000000000000000000000000000", "-1000000000000000000000000000000.."}

func c13Sign(i, n int) string {
	switch {
	case i < -n:
		return "<<"
	case i < 0:
		return "-"
	case i == 0:
		return "0"
	case i < n:
		return "+"
	case i == n:
		return "n"
	}
	return ">>"
}

// c13Indices lists every index tried on a container of size n.
func c13Indices(n int) []c13Idx {
	var out []c13Idx
	addText := func(form, text, sg string, lit bool) {
		r := c13RefText(text, n)
		out = append(out, c13Idx{key: text, show: strconv.Quote(text), ref: r, class: form + sg + "/" + c13KindName[r.kind], lit: lit})
	}
	lo, hi := -n-2, n+2
	for i := lo; i <= hi; i++ {
		si := strconv.Itoa(i)
		addText("i", si, c13Sign(i, n), true)
		addText("i..", si+"..", c13Sign(i, n), true)
		addText("..j", ".."+si, c13Sign(i, n), true)
		addText("..=j", "..="+si, c13Sign(i, n), true)
		r := c13RefInt(i, n)
		out = append(out, c13Idx{key: i, show: "(num " + si + ")", ref: r, class: "int" + c13Sign(i, n) + "/" + c13KindName[r.kind]})
		for j := lo; j <= hi; j++ {
			sj := strconv.Itoa(j)
			sg := c13Sign(i, n) + c13Sign(j, n)
			addText("i..j", si+".."+sj, sg, true)
			addText("i..=j", si+"..="+sj, sg, true)
		}
	}
	addText("..", "..", "", true)
	addText("..=", "..=", "", true)
	for _, m := range c13Misc {
		addText("misc:"+m, m, "", false)
	}
	typed := func(name string, key any, r c13Ref) {
		out = append(out, c13Idx{key: key, show: name, ref: r, class: "typed:" + name + "/" + c13KindName[r.kind]})
	}
	typed("maxint", math.MaxInt, c13Ref{kind: c13Err})
	typed("minint", math.MinInt, c13Ref{kind: c13Err})
	e30, _ := new(big.Int).SetString("1000000000000000000000000000000", 10)
	typed("bigint-1e30", e30, c13Ref{kind: c13Err})
	typed("bigint-neg1e30", new(big.Int).Neg(e30), c13Ref{kind: c13Err})
	typed("rat-1/2", big.NewRat(1, 2), c13Ref{kind: c13Err})
	typed("float-0.5", 0.5, c13Ref{kind: c13Err})
	typed("float-nan", math.NaN(), c13Ref{kind: c13Err})
	typed("float-inf", math.Inf(1), c13Ref{kind: c13Err})
	// integral float: "typed number" but not an integer type: not judged which
	if r := c13RefInt(0, n); r.kind == c13Elem {
		typed("float-0.0", 0.0, c13Ref{kind: c13MaybeElem, lo: 0})
	} else {
		typed("float-0.0", 0.0, c13Ref{kind: c13Err})
	}
	typed("bool", true, c13Ref{kind: c13Err})
	typed("nil", nil, c13Ref{kind: c13Err})
	typed("list", vals.EmptyList, c13Ref{kind: c13Err})
	typed("map", vals.EmptyMap, c13Ref{kind: c13Err})
	return out
}

// ---------------------------------------------------------------------------
// Containers
// ---------------------------------------------------------------------------

var c13Syms = []string{"a", "é", "好", "�", "\U0001d11e"}
var c13SymName = []string{"a", "e2", "hao3", "FFFD", "clef4"}
var c13SymW = []int{1, 2, 3, 3, 4}

// c13Str is a string with its codepoint layout known by construction.
type c13Str struct {
	s     string
	start []int // start[off] = symbol starting at off, -1 none; len n+1 (start[n] = -2)
	end   []int // end[off] = symbol ending at off, -1 none (end[0] = -2)
}

func c13MakeStr(idx []int) c13Str {
	var sb strings.Builder
	n := 0
	for _, k := range idx {
		n += c13SymW[k]
	}
	st := c13Str{start: make([]int, n+1), end: make([]int, n+1)}
	for i := range st.start {
		st.start[i], st.end[i] = -1, -1
	}
	off := 0
	for _, k := range idx {
		sb.WriteString(c13Syms[k])
		st.start[off] = k
		off += c13SymW[k]
		st.end[off] = k
	}
	st.start[n], st.end[0] = -2, -2
	st.s = sb.String()
	return st
}

func c13OffName(v int) string {
	switch v {
	case -1:
		return "mid"
	case -2:
		return "edge"
	}
	return c13SymName[v]
}

// c13StrRef specialises a size-level reference to one string: applies the
// codepoint boundary rule. Returns the refined ref and a class suffix.
func c13StrRef(st *c13Str, r c13Ref) (c13Ref, string) {
	switch r.kind {
	case c13Elem, c13MaybeElem:
		k := st.start[r.lo]
		if k < 0 {
			return c13Ref{kind: c13Err}, "/@mid"
		}
		return c13Ref{kind: r.kind, lo: r.lo, hi: r.lo + c13SymW[k]}, "/@" + c13SymName[k]
	case c13Slice, c13MaybeSlice:
		a, b := st.start[r.lo], st.end[r.hi]
		if r.lo == r.hi { // empty range: one position, must be a boundary
			b = a
		}
		suffix := "/" + c13OffName(a) + ":" + c13OffName(b)
		if st.start[r.lo] == -1 || st.end[r.hi] == -1 {
			return c13Ref{kind: c13Err}, suffix
		}
		return r, suffix
	}
	return r, ""
}

func c13ListElems(n int) []any {
	e := make([]any, n)
	for i := range e {
		e[i] = "e" + strconv.Itoa(i)
	}
	return e
}

// c13ListIs reports whether v is a list with exactly the given elements.
func c13ListIs(v any, want []any) bool {
	l, ok := v.(vals.List)
	if !ok || l.Len() != len(want) {
		return false
	}
	for i, w := range want {
		g, ok := l.Index(i)
		if !ok || g != w {
			return false
		}
	}
	return true
}

func c13Show(v any) string {
	if v == nil {
		return "nil"
	}
	return vals.ReprPlain(v)
}

// ---------------------------------------------------------------------------
// Judging one observation against the reference
// ---------------------------------------------------------------------------

var c13NotJudged, c13HalfJudged atomic.Int64

// c13Sink receives a violation (key, message, replay).
type c13Sink func(key, msg, replay string)

// c13Judge compares (got, err) with the reference. want() builds the expected
// value for the (lo,hi) of the reference. Returns "" or a mismatch kind.
func c13Judge(r c13Ref, got any, err error, match func(got any) bool) string {
	switch r.kind {
	case c13NJ:
		c13NotJudged.Add(1)
		return ""
	case c13Err:
		if err == nil {
			return "missing-exception"
		}
		return ""
	case c13MaybeSlice, c13MaybeElem:
		c13HalfJudged.Add(1)
		if err != nil {
			return ""
		}
	default:
		if err != nil {
			return "unexpected-exception"
		}
	}
	if !match(got) {
		return "wrong-result"
	}
	return ""
}

// c13Key maps a mismatch to a stable violation key (one per root cause as far
// as can be told from the outside).
func c13Key(cont, op, mismatch string, err error, st *c13Str, r c13Ref) string {
	if st != nil && mismatch == "unexpected-exception" && err != nil && strings.Contains(err.Error(), "rune boundary") {
		// both ends are boundaries (by construction) and yet rejected as not at
		// a boundary: name the codepoint(s) involved
		var at []string
		if k := st.start[r.lo]; k >= 0 {
			at = append(at, c13SymName[k])
		}
		if r.kind == c13Slice || r.kind == c13MaybeSlice {
			if k := st.end[r.hi]; k >= 0 {
				at = append(at, c13SymName[k])
			}
		}
		for _, a := range at {
			if a == "FFFD" {
				return "string-boundary-at-U+FFFD-rejected"
			}
		}
		return "string-boundary-rejected"
	}
	return cont + "-" + op + "-" + mismatch
}

func c13ErrStr(err error) string {
	if err == nil {
		return "no exception"
	}
	return "exception " + strconv.Quote(err.Error())
}

func c13Expect(r c13Ref, want string) string {
	switch r.kind {
	case c13Err:
		return "an exception"
	case c13MaybeSlice, c13MaybeElem:
		return "an exception or " + want
	}
	return want
}

// c13CheckString runs Index and Assoc on one string with one index.
func c13CheckString(v c13Sink, l *vk.Local, st *c13Str, ix *c13Idx) {
	r, suffix := c13StrRef(st, ix.ref)
	s := st.s
	var got any
	var err error
	if p := vk.Try(func() { got, err = vals.Index(s, ix.key) }); p != "" {
		v("panic:"+vk.PanicSite(p), fmt.Sprintf("vals.Index(%q, %s) panicked: %s", s, ix.show, p), s+" "+ix.show)
		l.Case("panic")
		return
	}
	want := ""
	if r.kind != c13Err && r.kind != c13NJ {
		want = s[r.lo:r.hi]
	}
	if m := c13Judge(r, got, err, func(g any) bool { return g == want }); m != "" {
		v(c13Key("string", "index", m, err, st, r),
			fmt.Sprintf("vals.Index(%q, %s): got %s / %s, reference demands %s", s, ix.show, c13Show(got), c13ErrStr(err), c13Expect(r, strconv.Quote(want))),
			s+" "+ix.show)
	}
	l.Case("S/" + ix.class + suffix)

	// assoc: an element index replaces exactly that codepoint. A slice key on a
	// string is not documented: exception, or else exactly that range replaced.
	ar := r
	if ar.kind == c13Slice {
		ar.kind = c13MaybeSlice
	}
	for _, repl := range c13Repl {
		var res any
		if p := vk.Try(func() { res, err = vals.Assoc(s, ix.key, repl) }); p != "" {
			v("panic:"+vk.PanicSite(p), fmt.Sprintf("vals.Assoc(%q, %s, %q) panicked: %s", s, ix.show, repl, p), s+" "+ix.show)
			return
		}
		wantA := ""
		if ar.kind != c13Err && ar.kind != c13NJ {
			wantA = s[:ar.lo] + repl + s[ar.hi:]
		}
		if m := c13Judge(ar, res, err, func(g any) bool { return g == wantA }); m != "" {
			v(c13Key("string", "assoc", m, err, st, ar),
				fmt.Sprintf("vals.Assoc(%q, %s, %q): got %s / %s, reference demands %s", s, ix.show, repl, c13Show(res), c13ErrStr(err), c13Expect(ar, strconv.Quote(wantA))),
				s+" "+ix.show)
		}
		if ar.kind != c13Elem {
			break // one replacement is enough for the non-element keys
		}
	}
}

var c13Repl = []string{"Z", "", "好"}

// c13CheckList runs Index and Assoc on the list [e0 .. e(n-1)] with one index.
func c13CheckList(v c13Sink, l *vk.Local, n int, ix *c13Idx) {
	elems := c13ListElems(n)
	li := vals.MakeList(elems...)
	r := ix.ref
	var got any
	var err error
	desc := c13Show(li)
	if p := vk.Try(func() { got, err = vals.Index(li, ix.key) }); p != "" {
		v("panic:"+vk.PanicSite(p), fmt.Sprintf("vals.Index(%s, %s) panicked: %s", desc, ix.show, p), desc+" "+ix.show)
		l.Case("panic")
		return
	}
	var m, want string
	switch r.kind {
	case c13Elem, c13MaybeElem:
		want = elems[r.lo].(string)
		m = c13Judge(r, got, err, func(g any) bool { return g == elems[r.lo] })
	case c13Slice, c13MaybeSlice:
		want = c13Show(vals.MakeList(elems[r.lo:r.hi]...))
		m = c13Judge(r, got, err, func(g any) bool { return c13ListIs(g, elems[r.lo:r.hi]) })
	default:
		m = c13Judge(r, got, err, nil)
	}
	if m != "" {
		v(c13Key("list", "index", m, err, nil, r),
			fmt.Sprintf("vals.Index(%s, %s): got %s / %s, reference demands %s", desc, ix.show, c13Show(got), c13ErrStr(err), c13Expect(r, want)),
			desc+" "+ix.show)
	}
	l.Case("L/" + ix.class)

	// assoc
	ar := r
	if ar.kind == c13Slice || ar.kind == c13MaybeSlice {
		ar = c13Ref{kind: c13Err} // "slice is not yet supported"
	}
	var res any
	if p := vk.Try(func() { res, err = vals.Assoc(li, ix.key, "NEW") }); p != "" {
		v("panic:"+vk.PanicSite(p), fmt.Sprintf("vals.Assoc(%s, %s, NEW) panicked: %s", desc, ix.show, p), desc+" "+ix.show)
		return
	}
	var wantL []any
	if ar.kind == c13Elem || ar.kind == c13MaybeElem {
		wantL = c13ListElems(n)
		wantL[ar.lo] = "NEW"
	}
	if m := c13Judge(ar, res, err, func(g any) bool { return c13ListIs(g, wantL) }); m != "" {
		v(c13Key("list", "assoc", m, err, nil, ar),
			fmt.Sprintf("vals.Assoc(%s, %s, NEW): got %s / %s, reference demands %s", desc, ix.show, c13Show(res), c13ErrStr(err), c13Expect(ar, c13Show(vals.MakeList(wantL...)))),
			desc+" "+ix.show)
	}
	if !c13ListIs(li, elems) {
		v("list-assoc-original-changed", fmt.Sprintf("after vals.Assoc(%s, %s, NEW) the original list is %s", desc, ix.show, c13Show(li)), desc+" "+ix.show)
	}
}

// ---------------------------------------------------------------------------
// Through the evaluator: $x[i] and set x[i] = v
// ---------------------------------------------------------------------------

type c13EvCase struct {
	st *c13Str // nil for lists
	n  int
	ix *c13Idx
}

func c13Eval(ev *eval.Evaler, code string, x, i any) (r any, rset bool, xAfter any, err error) {
	sentinel := new(int)
	xv, rv := vars.FromInit(x), vars.FromInit(any(sentinel))
	ns := eval.BuildNs().AddVar("x", xv).AddVar("r", rv).AddVar("i", vars.FromInit(i)).AddVar("v", vars.FromInit("NEW")).Ns()
	err = ev.Eval(parse.Source{Name: "c13", Code: code}, eval.EvalCfg{Global: ns})
	r = rv.Get()
	rset = r != any(sentinel)
	if !rset {
		r = nil // nothing was assigned
	}
	return r, rset, xv.Get(), err
}

func c13CheckEval(v c13Sink, l *vk.Local, ev *eval.Evaler, ec *c13EvCase) {
	ix := ec.ix
	var x any
	var elems []any
	r := ix.ref
	suffix := ""
	desc := ""
	cont := "list"
	if ec.st != nil {
		x = ec.st.s
		r, suffix = c13StrRef(ec.st, ix.ref)
		desc = strconv.Quote(ec.st.s)
		cont = "string"
	} else {
		elems = c13ListElems(ec.n)
		x = vals.MakeList(elems...)
		desc = c13Show(x)
	}
	same := func(g any, lo, hi int, elem bool) bool {
		if ec.st != nil {
			return g == ec.st.s[lo:hi]
		}
		if elem {
			return g == elems[lo]
		}
		return c13ListIs(g, elems[lo:hi])
	}
	wantShow := func(r c13Ref) string {
		switch {
		case r.kind == c13Err || r.kind == c13NJ:
			return ""
		case ec.st != nil:
			return strconv.Quote(ec.st.s[r.lo:r.hi])
		case r.kind == c13Elem || r.kind == c13MaybeElem:
			return c13Show(elems[r.lo])
		}
		return c13Show(vals.MakeList(elems[r.lo:r.hi]...))
	}
	unchanged := func(g any) bool {
		if ec.st != nil {
			return g == ec.st.s
		}
		return c13ListIs(g, elems)
	}
	type variant struct{ get, set string }
	variants := []variant{{"set r = $x[$i]", "set x[$i] = $v"}}
	if ix.lit {
		t := ix.key.(string)
		variants = append(variants, variant{"set r = $x[" + t + "]", "set x[" + t + "] = $v"})
	}
	for _, vr := range variants {
		// --- read
		var got, xa any
		var rset bool
		var err error
		if p := vk.Try(func() { got, rset, xa, err = c13Eval(ev, vr.get, x, ix.key) }); p != "" {
			v("panic:"+vk.PanicSite(p), fmt.Sprintf("x=%s i=%s; %s panicked: %s", desc, ix.show, vr.get, p), desc+" "+vr.get)
			return
		}
		if _, isExc := err.(eval.Exception); err != nil && !isExc {
			v("evaler-non-exception-error", fmt.Sprintf("x=%s i=%s; %s: %v", desc, ix.show, vr.get, err), desc+" "+vr.get)
			return
		}
		if err == nil && !rset {
			v("evaler-no-value", fmt.Sprintf("x=%s i=%s; %s: no exception and no value assigned", desc, ix.show, vr.get), desc+" "+vr.get)
		}
		elem := r.kind == c13Elem || r.kind == c13MaybeElem
		if m := c13Judge(r, got, err, func(g any) bool { return same(g, r.lo, c13EvHi(r, ec.st), elem) }); m != "" {
			v(c13Key(cont, "eval-index", m, err, ec.st, r),
				fmt.Sprintf("x=%s i=%s; %s: got %s / %s, reference demands %s", desc, ix.show, vr.get, c13Show(got), c13ErrStr(err), c13Expect(r, wantShow(r))),
				desc+" "+vr.get)
		}
		if !unchanged(xa) {
			v(cont+"-eval-index-changed-variable", fmt.Sprintf("x=%s i=%s; %s changed $x to %s", desc, ix.show, vr.get, c13Show(xa)), desc+" "+vr.get)
		}
		// --- write
		ar := r
		if ec.st == nil && (ar.kind == c13Slice || ar.kind == c13MaybeSlice) {
			ar = c13Ref{kind: c13Err}
		} else if ar.kind == c13Slice {
			ar.kind = c13MaybeSlice
		}
		if p := vk.Try(func() { _, _, xa, err = c13Eval(ev, vr.set, x, ix.key) }); p != "" {
			v("panic:"+vk.PanicSite(p), fmt.Sprintf("x=%s i=%s; %s panicked: %s", desc, ix.show, vr.set, p), desc+" "+vr.set)
			return
		}
		if _, isExc := err.(eval.Exception); err != nil && !isExc {
			v("evaler-non-exception-error", fmt.Sprintf("x=%s i=%s; %s: %v", desc, ix.show, vr.set, err), desc+" "+vr.set)
			return
		}
		if err != nil && !unchanged(xa) {
			v(cont+"-set-failed-but-changed", fmt.Sprintf("x=%s i=%s; %s raised %v but $x is now %s", desc, ix.show, vr.set, err, c13Show(xa)), desc+" "+vr.set)
		}
		wantS, wantL := "", []any(nil)
		if ar.kind != c13Err && ar.kind != c13NJ {
			if ec.st != nil {
				wantS = ec.st.s[:ar.lo] + "NEW" + ec.st.s[c13EvHi(ar, ec.st):]
			} else {
				wantL = c13ListElems(ec.n)
				wantL[ar.lo] = "NEW"
			}
		}
		if m := c13Judge(ar, xa, err, func(g any) bool {
			if ec.st != nil {
				return g == wantS
			}
			return c13ListIs(g, wantL)
		}); m != "" {
			w := strconv.Quote(wantS)
			if ec.st == nil {
				w = c13Show(vals.MakeList(wantL...))
			}
			v(c13Key(cont, "set", m, err, ec.st, ar),
				fmt.Sprintf("x=%s i=%s; %s: $x is now %s / %s, reference demands %s", desc, ix.show, vr.set, c13Show(xa), c13ErrStr(err), c13Expect(ar, w)),
				desc+" "+vr.set)
		}
		// the value held before must not be affected by the assignment
		if !unchanged(x) {
			v(cont+"-set-changed-old-value", fmt.Sprintf("x=%s i=%s; %s modified the previous value in place", desc, ix.show, vr.set), desc+" "+vr.set)
		}
	}
	pre := "EL/"
	if ec.st != nil {
		pre = "ES/"
	}
	l.Case(pre + ix.class + suffix)
}

// c13EvHi: for strings c13StrRef already made hi the end of the codepoint.
func c13EvHi(r c13Ref, st *c13Str) int {
	if st == nil && (r.kind == c13Elem || r.kind == c13MaybeElem) {
		return r.lo + 1
	}
	return r.hi
}

// ---------------------------------------------------------------------------

func TestVerifC13(t *testing.T) {
	vk.Run(t, "C13", "exploration", func(c *vk.Ctx) {
		maxList := vk.Pick(c, 6, 9)
		maxSyms := vk.Pick(c, 4, 6)
		evList := vk.Pick(c, 3, 5)
		evSyms := vk.Pick(c, 2, 3)
		c.Rule(fmt.Sprintf("containers: every list [e0..e(n-1)] with n<=%d and every string of <=%d symbols over %q (1,2,3,3,4 bytes; all valid UTF-8, includes a literal U+FFFD); indices for size n (n = elements or bytes): every i, i.., ..j, ..=j, i..j, i..=j with i,j in [-n-2,n+2] as strings, every such i as a typed int, '..', '..=', %d malformed/overflowing strings %q, and typed maxint/minint/bigint/rat/float/bool/nil/list/map; on each (container,index) vals.Index and vals.Assoc are run; for lists n<=%d and strings of <=%d symbols the same indices also go through the evaluator as `set r = $x[$i]`, `set x[$i] = $v` and with the index written literally; class = (container kind, index form, position of i and j relative to -n,0,n, reference outcome, and for strings which codepoint starts/ends at the addressed offsets)",
			maxList, maxSyms, c13Syms, len(c13Misc), c13Misc, evList, evSyms))
		c.Assume("reference semantics are a reading of website/ref/language.md (String, List, Indexing) and the doc comment of assoc",
			"not judged (exception or the obvious value both accepted): reversed ranges a..b with b<a, inclusive ranges that address no element (a..=a-1, ..=-n-1), `a..=` with omitted upper bound, integral floats as index, slice keys in assoc on strings; not judged at all: non-decimal number spellings (0x1, +1, 1.0, 1_0)",
			"strings that are not valid UTF-8 are outside the property (behaviour unspecified by the reference)")

		maxBytes := maxSyms * 4
		idxBySize := make([][]c13Idx, maxBytes+1)
		for n := range idxBySize {
			idxBySize[n] = c13Indices(n)
		}

		direct := func(key, msg, replay string) { c.Violate(key, msg, replay) }

		// lists: sequential, smallest first (a few thousand cases)
		l0 := vk.NewLocal()
		for n := 0; n <= maxList; n++ {
			ixs := idxBySize[n]
			for k := range ixs {
				c13CheckList(direct, l0, n, &ixs[k])
			}
		}
		c.Sample(fmt.Sprintf("list n=3: %d indices, e.g. %s %s %s", len(idxBySize[3]), idxBySize[3][0].show, idxBySize[3][7].show, idxBySize[3][20].show))

		// strings, length-lexicographic; those of <=2 symbols sequentially first so
		// that the reported counterexample per key is the smallest one
		var seqs [][]int
		var gen func(n int, pre []int)
		gen = func(n int, pre []int) {
			if len(pre) == n {
				seqs = append(seqs, append([]int{}, pre...))
				return
			}
			for k := range c13Syms {
				gen(n, append(pre, k))
			}
		}
		nSmall := 0
		for n := 0; n <= maxSyms; n++ {
			gen(n, nil)
			if n == 2 || (n == maxSyms && n < 2) {
				nSmall = len(seqs)
			}
		}
		doStr := func(v c13Sink, l *vk.Local, idx []int) {
			st := c13MakeStr(idx)
			ixs := idxBySize[len(st.s)]
			for k := range ixs {
				c13CheckString(v, l, &st, &ixs[k])
			}
			if len(idx) == 3 && idx[0] == 3 && idx[1] == 0 {
				c.Sample(st.s)
			}
		}
		for i := 0; i < nSmall; i++ {
			doStr(direct, l0, seqs[i])
		}
		c.Merge(l0)
		c.Parallel(len(seqs)-nSmall, func(l *vk.Local, i int) { doStr(direct, l, seqs[nSmall+i]) })
		c.Set("strings", len(seqs))

		// evaluator: parallel, violations reported afterwards in case order
		var ecs []c13EvCase
		for n := 0; n <= evList; n++ {
			for k := range idxBySize[n] {
				ecs = append(ecs, c13EvCase{n: n, ix: &idxBySize[n][k]})
			}
		}
		for _, idx := range seqs {
			if len(idx) > evSyms {
				break
			}
			st := c13MakeStr(idx)
			ixs := idxBySize[len(st.s)]
			for k := range ixs {
				ecs = append(ecs, c13EvCase{st: &st, ix: &ixs[k]})
			}
		}
		nw := vk.Workers()
		evs := make(chan *eval.Evaler, nw)
		for i := 0; i < nw; i++ {
			evs <- eval.NewEvaler()
		}
		type viol struct{ key, msg, replay string }
		found := make([][]viol, len(ecs))
		c.Parallel(len(ecs), func(l *vk.Local, i int) {
			ev := <-evs
			c13CheckEval(func(key, msg, replay string) { found[i] = append(found[i], viol{key, msg, replay}) }, l, ev, &ecs[i])
			evs <- ev
		})
		for _, vs := range found {
			for _, v := range vs {
				c.Violate(v.key, v.msg, v.replay)
			}
		}
		c.Set("evaluator_cases", len(ecs))
		c.Set("not_judged_observations", c13NotJudged.Load())
		c.Set("half_judged_observations", c13HalfJudged.Load())
		c.Set("max_list_len", maxList)
		c.Set("max_string_symbols", maxSyms)
		c.Set("max_string_bytes", maxBytes)
	})
}
