//go:build verif

package eval

import (
	"fmt"
	"sort"
	"strings"
	"testing"

	"src.elv.sh/pkg/parse"
	"src.elv.sh/pkg/zzverif/vk"
	"src.elv.sh/pkg/zzverif/vsched"
	"src.elv.sh/pkg/zzverif/vshard"
)

type c20Prog struct {
	name    string
	inputs  []string
	workers string // "1", "2", "" (unbounded), "+inf"; "rp" = run-parallel
	kind    string // put | break | fail
	k       string // element that breaks / fails
	code    string
	eachRef []string // log of the `each` version (workers=1 only), computed outside the scheduler
}

func c20Code(cmd string, p c20Prog) string {
	act := ""
	switch p.kind {
	case "break":
		act = "if (eq $x " + p.k + ") { break }; "
	case "fail":
		act = "if (eq $x " + p.k + ") { fail boom }; "
	case "failall":
		act = "fail boom-$x; "
	case "breakfail":
		act = "if (eq $x a) { break }; if (eq $x b) { fail boom-b }; "
	}
	return fmt.Sprintf("put %s | %s {|x| enter $x; try { %sput $x } finally { leave $x } }", strings.Join(p.inputs, " "), cmd, act)
}

func c20Progs() []c20Prog {
	var ps []c20Prog
	ins := [][]string{{}, {"a"}, {"a", "b"}, {"a", "b", "c"}}
	for _, in := range ins {
		for _, w := range []string{"1", "2", "+inf"} {
			kinds := []struct{ kind, k string }{{"put", ""}}
			if len(in) >= 2 {
				kinds = append(kinds, struct{ kind, k string }{"break", in[0]}, struct{ kind, k string }{"fail", in[1]})
			}
			if len(in) == 3 {
				kinds = append(kinds, struct{ kind, k string }{"break", in[1]})
			}
			if len(in) >= 2 {
				// several abnormal ends in one run: every failure must be reported
				kinds = append(kinds, struct{ kind, k string }{"failall", ""}, struct{ kind, k string }{"breakfail", ""})
			}
			for _, kd := range kinds {
				p := c20Prog{inputs: in, workers: w, kind: kd.kind, k: kd.k}
				p.name = fmt.Sprintf("peach-w%s-n%d-%s%s", w, len(in), kd.kind, kd.k)
				p.code = c20Code("peach &num-workers="+w, p)
				if w == "1" {
					p.eachRef = c20RunFree(c20Code("each", p))
				}
				ps = append(ps, p)
			}
		}
	}
	ps = append(ps,
		c20Prog{name: "run-parallel-3", workers: "rp", inputs: []string{"a", "b", "c"}, kind: "fail", k: "b",
			code: "run-parallel { enter a; put a; leave a } { enter b; try { fail boom } finally { leave b } } { enter c; put c; leave c }"},
		c20Prog{name: "run-parallel-2-fail", workers: "rp", inputs: []string{"a", "b"}, kind: "fail2",
			code: "run-parallel { enter a; try { fail boom } finally { leave a } } { enter b; try { fail bang } finally { leave b } }"},
	)
	return ps
}

func c20Run(code string) {
	ev := NewEvaler()
	vsHarnessFns(ev)
	port, collect, err := CapturePort()
	if err != nil {
		panic(err)
	}
	err = ev.Eval(parse.Source{Name: "v", Code: code}, EvalCfg{Ports: []*Port{DummyInputPort, port, DummyOutputPort}})
	vs, _ := collect()
	vsched.Logf("result err=%s values=%s", vsErrString(err), vsValues(vs))
}

// c20RunFree runs code on the real primitives under a trivial schedule (one
// execution, default choices) and returns its log: the differential reference.
func c20RunFree(code string) []string {
	r := vsched.Run(nil, 5000, func() { c20Run(code) })
	return r.Log
}

func c20Oracle(p c20Prog) func(r *vsched.Result) (string, string) {
	limit := 0
	switch p.workers {
	case "1":
		limit = 1
	case "2":
		limit = 2
	}
	return func(r *vsched.Result) (string, string) {
		if k, m := vsBasic(r); k != "" {
			return k, m
		}
		entered := map[string]int{}
		left := map[string]int{}
		res := ""
		resAt := -1
		for i, l := range r.Log {
			f := strings.Fields(l)
			switch f[0] {
			case "enter":
				entered[f[1]]++
				var g int
				fmt.Sscanf(f[2], "gauge=%d", &g)
				if limit > 0 && g > limit {
					return "concurrency-bound-exceeded", fmt.Sprintf("%q: %d callbacks at once", p.code, g)
				}
			case "leave":
				left[f[1]]++
				if resAt >= 0 {
					return "returned-before-callback-finished", fmt.Sprintf("%q: callback %s finished after the command returned", p.code, f[1])
				}
			case "result":
				res, resAt = l, i
			}
		}
		for x, n := range entered {
			if n > 1 {
				return "callback-called-twice", fmt.Sprintf("%q: callback called %d times for %s", p.code, n, x)
			}
			if left[x] != 1 {
				return "returned-before-callback-finished", fmt.Sprintf("%q: callback for %s started but did not finish before the result", p.code, x)
			}
		}
		// expected outputs: every called element that does not break/fail puts itself
		var wantOut []string
		for x := range entered {
			if (p.kind == "break" || p.kind == "fail") && x == p.k || p.kind == "fail2" || p.kind == "failall" ||
				p.kind == "breakfail" && (x == "a" || x == "b") {
				continue
			}
			wantOut = append(wantOut, x)
		}
		sort.Strings(wantOut)
		vi := strings.Index(res, "values=[")
		gotOut := strings.Fields(strings.TrimSuffix(res[vi+8:], "]"))
		sorted := append([]string{}, gotOut...)
		sort.Strings(sorted)
		if strings.Join(sorted, " ") != strings.Join(wantOut, " ") {
			return "outputs-not-union-of-callbacks", fmt.Sprintf("%q: outputs %v, callbacks that completed put %v", p.code, gotOut, wantOut)
		}
		errs := res[len("result err="):vi]
		noStop := p.kind == "put"
		if noStop || p.workers == "rp" {
			for _, x := range p.inputs {
				if entered[x] != 1 {
					return "callback-not-called", fmt.Sprintf("%q: callback not called exactly once for %s (%d)", p.code, x, entered[x])
				}
			}
		}
		switch p.kind {
		case "put", "break":
			if strings.TrimSpace(errs) != "ok" {
				return "unexpected-exception", fmt.Sprintf("%q: %s", p.code, res)
			}
		case "fail":
			if entered[p.k] == 1 && !strings.Contains(errs, "boom") {
				return "exception-not-reported", fmt.Sprintf("%q: callback for %s failed but result is %s", p.code, p.k, res)
			}
			if entered[p.k] == 0 && strings.TrimSpace(errs) != "ok" {
				return "unexpected-exception", fmt.Sprintf("%q: %s", p.code, res)
			}
		case "failall":
			for x := range entered {
				if !strings.Contains(errs, "boom-"+x) {
					return "exception-not-reported", fmt.Sprintf("%q: the callback for %s failed with boom-%s but the result is %s", p.code, x, x, res)
				}
			}
			if len(entered) == 0 && strings.TrimSpace(errs) != "ok" {
				return "unexpected-exception", fmt.Sprintf("%q: %s", p.code, res)
			}
		case "breakfail":
			if entered["b"] == 1 && !strings.Contains(errs, "boom-b") {
				return "exception-not-reported", fmt.Sprintf("%q: the callback for b failed (after or while a broke) but the result is %s", p.code, res)
			}
			if entered["b"] == 0 && strings.TrimSpace(errs) != "ok" {
				return "unexpected-exception", fmt.Sprintf("%q: %s", p.code, res)
			}
		case "fail2":
			if !strings.Contains(errs, "boom") || !strings.Contains(errs, "bang") {
				return "exception-not-reported", fmt.Sprintf("%q: both functions failed but result is %s", p.code, res)
			}
		}
		if p.eachRef != nil {
			got := strings.Join(r.Log, "|")
			want := strings.Join(p.eachRef, "|")
			if got != want {
				return "one-worker-peach-differs-from-each", fmt.Sprintf("%q: log %v; the same callback under `each` gives %v", p.code, r.Log, p.eachRef)
			}
		}
		return "", ""
	}
}

func c20Scenarios() []vshard.Scenario {
	var scs []vshard.Scenario
	for _, p := range c20Progs() {
		p := p
		sc := vshard.Scenario{Name: p.name, Body: func() { c20Run(p.code) }, Oracle: c20Oracle(p)}
		if len(p.inputs) == 3 {
			// the three-input programs have ~2x the points: one bound lower keeps the tier's budget
			sc.Bound = 1
			if os_Getenv("VERIF_TIER") == "thorough" {
				sc.Bound = 2
			}
		}
		scs = append(scs, sc)
	}
	return scs
}

func TestVerifC20(t *testing.T) {
	cfg := vshard.Config{Delay: true, Bound: 2, MaxPoints: 5000}
	if os_Getenv("VERIF_TIER") == "thorough" {
		cfg.Bound = 3
	}
	if vshard.IsWorker() {
		vshard.Serve(c20Scenarios(), cfg)
		return
	}
	vk.Run(t, "C20", "exploration", func(c *vk.Ctx) {
		c.Rule(fmt.Sprintf("peach over 0..3 inputs x num-workers in {1,2,+inf} x callbacks {put, break on an element, fail on an element, every element fails with its own message, one breaks and another fails}, and run-parallel with 2-3 functions, on the real Evaler; every schedule with <=%d departures from the default goroutine (one less for the 3-input programs); class = distinct (program, observation log, blocking profile)", cfg.Bound))
		c.Assume("pkg/eval rewritten for the controlled scheduler; x/sync/semaphore compiled from its real source the same way; one-worker peach is compared with the real `each` run on the same callback")
		vshard.Run(c, c20Scenarios(), cfg)
	})
}
