//go:build verif

package eval

import (
	"context"
	"fmt"
	"strings"
	"testing"
	"time"

	"src.elv.sh/pkg/eval/vals"
	"src.elv.sh/pkg/parse"
	"src.elv.sh/pkg/zzverif/vk"
	"src.elv.sh/pkg/zzverif/vsched"
	"src.elv.sh/pkg/zzverif/vshard"
)

// vsHarnessFns adds harness commands: mark, enter, leave (a concurrency gauge).
func vsHarnessFns(ev *Evaler) {
	gauge := 0
	ev.ExtendBuiltin(BuildNs().AddGoFns(map[string]any{
		"mark":  func(x any) { vsched.Logf("mark %s", vals.ToString(x)) },
		"enter": func(x any) { gauge++; vsched.Logf("enter %s gauge=%d", vals.ToString(x), gauge) },
		"leave": func(x any) { gauge--; vsched.Logf("leave %s", vals.ToString(x)) },
		// slow is a command that cannot be interrupted: it passes two scheduling points and then logs a mark
		"slow": func(x any) { vsched.Point("slow-1"); vsched.Point("slow-2"); vsched.Logf("mark %s", vals.ToString(x)) },
	}).Ns())
}

type c19Prog struct {
	name, code string
	marks      int // marks of a complete run
	afterLimit int // threads of execution that may each still finish one started pipeline after the interrupt
	gaugeLimit int
	neverEnds  bool
}

func c19Progs() []c19Prog {
	return []c19Prog{
		{"sequence", "mark 1; mark 2; mark 3; mark 4", 4, 1, 0, false},
		{"each", "range 4 | each {|x| mark $x }", 4, 1, 0, false},
		{"peach-1", "range 4 | peach &num-workers=1 {|x| enter $x; try { mark $x } finally { leave $x } }", 4, 1, 1, false},
		{"peach-2", "range 4 | peach &num-workers=2 {|x| enter $x; try { mark $x } finally { leave $x } }", 4, 2, 2, false},
		{"peach-inf", "range 3 | peach {|x| enter $x; try { mark $x } finally { leave $x } }", 3, 3, 3, false},
		// callbacks that cannot be interrupted once started: evaluation may only return after they have finished
		{"peach-1-slow", "range 3 | peach &num-workers=1 {|x| slow $x }", 3, 1, 0, false},
		{"peach-2-slow", "range 4 | peach &num-workers=2 {|x| slow $x }", 4, 2, 0, false},
		{"peach-inf-slow", "range 3 | peach {|x| slow $x }", 3, 3, 0, false},
		{"run-parallel-slow", "run-parallel { slow a } { slow b }", 2, 2, 0, false},
		{"pipeline-slow", "slow a | slow b; mark c", 3, 2, 0, false},
		{"sleep", "mark 1; sleep 1000; mark 2", 2, 1, 0, true},
		{"functions", "fn g { mark b }; fn f { mark a; g }; f; f", 4, 1, 0, false},
		{"try-finally", "try { mark 1; mark 2 } finally { mark f }; mark 3", 4, 1, 0, false},
		{"two-stage", "{ mark 1; put x } | each {|x| mark 2 }; mark 3", 3, 2, 0, false},
		{"while", "var i = 0; while (< $i 3) { mark $i; set i = (+ $i 1) }", 3, 1, 0, false},
		{"run-parallel", "run-parallel { mark a } { mark b }; mark c", 3, 2, 0, false},
		// a background job earlier in the same frame must not shield the rest from the interrupt
		{"after-background-job", "nop &; mark 1; mark 2; mark 3", 3, 1, 0, false},
		{"background-job-in-closure", "{ nop &; mark 1; mark 2 }; mark 3", 3, 1, 0, false},
		// a background job that outlives the output capture it was started in
		{"background-job-in-output-capture", "var x = [({ mark b; put v } &)]; mark a", 2, 2, 0, false},
		{"sleep-after-background-job", "nop &; mark 1; sleep 1000; mark 2", 2, 1, 0, true},
	}
}

func c19Body(p c19Prog, late bool) func() {
	spawn := vsched.Go
	if late {
		// the interrupter is a low-priority actor: the default schedule delivers the interrupt only when nothing
		// else can run, and delivering it at any given point costs exactly one departure from the default
		spawn = vsched.GoLow
	}
	return func() {
		ev := NewEvaler()
		vsHarnessFns(ev)
		port, collect, err := CapturePort()
		if err != nil {
			panic(err)
		}
		ctx, cancel := context.WithCancel(context.Background())
		spawn(func() {
			cancel()
			vsched.Logf("interrupted")
		})
		err = ev.Eval(parse.Source{Name: "v", Code: p.code}, EvalCfg{Ports: []*Port{DummyInputPort, port, DummyOutputPort}, Interrupts: ctx})
		collect()
		vsched.Logf("result err=%s", vsErrString(err))
	}
}

// c19AllInterrupted reports whether an error rendering consists of interrupted exceptions only.
func c19AllInterrupted(s string) bool {
	s = strings.TrimPrefix(s, "result err=")
	s = strings.NewReplacer("pipeline[", "", "]", "", "exc:", "", "multiple errors: ", "", ";", ",", " ", "").Replace(s)
	if s == "" {
		return false
	}
	for _, part := range strings.Split(s, ",") {
		if part != "interrupted" {
			return false
		}
	}
	return true
}

func c19Oracle(p c19Prog) func(r *vsched.Result) (string, string) {
	return func(r *vsched.Result) (string, string) {
		if r.Panics > 0 && p.name == "background-job-in-output-capture" {
			for _, l := range r.Log {
				if strings.HasPrefix(l, "PANIC") && strings.Contains(l, "send on closed channel") {
					return "panic:background-job-writes-to-the-closed-port-of-an-output-capture", fmt.Sprintf("program %q: %s", p.code, l)
				}
			}
		}
		if k, m := vsBasic(r); k != "" {
			return k, m
		}
		intAt, resAt, marks, after := -1, -1, 0, 0
		res := ""
		for i, l := range r.Log {
			if resAt >= 0 && (strings.HasPrefix(l, "mark ") || strings.HasPrefix(l, "enter ") || strings.HasPrefix(l, "leave ")) {
				return "code-still-running-after-eval-returned", fmt.Sprintf("program %q: %q logged after Eval had returned (%s): a goroutine started by the evaluation had not completed", p.code, l, res)
			}
			switch {
			case l == "interrupted":
				intAt = i
			case strings.HasPrefix(l, "result "):
				resAt, res = i, l
			case strings.HasPrefix(l, "mark "):
				marks++
				if intAt >= 0 {
					after++
				}
			case strings.HasPrefix(l, "enter "):
				var g int
				fmt.Sscanf(l[strings.Index(l, "gauge=")+6:], "%d", &g)
				if p.gaugeLimit > 0 && g > p.gaugeLimit {
					return "concurrency-bound-exceeded", fmt.Sprintf("program %q: %d callbacks running at once", p.code, g)
				}
			}
		}
		if resAt < 0 {
			return "no-result", "Eval did not return"
		}
		if after > p.afterLimit {
			return "pipeline-started-after-interrupt", fmt.Sprintf("program %q: %d marks after the interrupt was delivered (at most %d can already have started)", p.code, after, p.afterLimit)
		}
		switch {
		case res == "result err=ok":
			if marks != p.marks {
				return "ok-but-incomplete", fmt.Sprintf("program %q returned normally after %d of %d marks", p.code, marks, p.marks)
			}
		case c19AllInterrupted(res):
			if intAt < 0 || intAt > resAt {
				return "interrupted-without-interrupt", fmt.Sprintf("program %q: %s before any interrupt", p.code, res)
			}
		default:
			return "unexpected-exception", fmt.Sprintf("program %q: %s", p.code, res)
		}
		return "", ""
	}
}

func c19Scenarios() []vshard.Scenario {
	// `sleep` never wakes by itself: only the interrupt can end it.
	timeAfter = func(fm *Frame, d time.Duration) <-chan time.Time { return nil }
	var scs []vshard.Scenario
	for _, p := range c19Progs() {
		scs = append(scs, vshard.Scenario{Name: p.name, Body: c19Body(p, false), Oracle: c19Oracle(p)})
		scs = append(scs, vshard.Scenario{Name: p.name + "/late", Body: c19Body(p, true), Oracle: c19Oracle(p)})
	}
	return scs
}

func TestVerifC19(t *testing.T) {
	cfg := vshard.Config{Delay: true, Bound: 2, MaxPoints: 5000}
	if os_Getenv("VERIF_TIER") == "thorough" {
		cfg.Bound = 3
	}
	if vshard.IsWorker() {
		vshard.Serve(c19Scenarios(), cfg)
		return
	}
	vk.Run(t, "C19", "exploration", func(c *vk.Ctx) {
		c.Rule(fmt.Sprintf("20 programs evaluated by the real Evaler with an interrupter goroutine whose only step is cancelling the Interrupts context, each in two scenarios: the interrupter as an ordinary goroutine (default: interrupt at the first moment the evaluation blocks) and as a low-priority actor (default: no interrupt until nothing else can run; an interrupt at any given scheduling point costs exactly one deviation, so bound b covers every interrupt position combined with b-1 further deviations); nothing may be logged by code of the evaluation after Eval has returned (five programs run commands that cannot be interrupted once started); the scheduler places the interrupt at every scheduling point (fault point = every synchronisation point) and explores every schedule with <=%d departures from the default goroutine; class = distinct (program, observation log, blocking profile)", cfg.Bound))
		c.Assume("interrupt delivery is modelled as context cancellation (what the signal handler does); pkg/eval rewritten for the controlled scheduler; `sleep` uses a timer that never fires, so only the interrupt ends it")
		vshard.Run(c, c19Scenarios(), cfg)
	})
}
