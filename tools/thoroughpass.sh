#!/bin/bash
# Runs every registered thorough check once against /repo, keeps the quick evidence (thorough evidence goes to .build/evidence-thorough/)
cd /verif; export GOFLAGS=-mod=mod GOPROXY=off GOSUMDB=off GOTOOLCHAIN=local
mkdir -p .build/evidence-thorough
for c in ${@:-$(python3 -c "import json; print(' '.join(x['property_id'] for x in json.load(open('MANIFEST.json'))['checks']))")}; do
  t0=$(date +%s); VERIF_EVIDENCE=/verif/.build/evidence-thorough/$c.json ./check $c thorough > .build/tpass-$c.out 2>&1; rc=$?; t1=$(date +%s)
  echo "$c rc=$rc $((t1-t0))s $(grep EVIDENCE .build/tpass-$c.out | sed 's/EVIDENCE property=[A-Z0-9]* //')"
  grep "^VIOLATION\|^HARNESS" .build/tpass-$c.out | cut -c1-400
done
