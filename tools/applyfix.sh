#!/bin/bash
# usage: applyfix.sh <diff> "<commit message>" <pkgs...>   (applies non-test hunks only, tests, commits in /repo)
set -e
export GOFLAGS=-mod=mod GOPROXY=off GOSUMDB=off GOTOOLCHAIN=local
d=$1; msg=$2; shift 2
cd /repo
git diff --quiet || { echo "repo dirty"; exit 1; }
filterdiff --help >/dev/null 2>&1 && HAVE=1 || HAVE=0
python3 - "$d" > /dev/shm/fix.diff <<'PY'
import sys,re
txt=open(sys.argv[1]).read()
parts=re.split(r'(?m)^(?=--- )',txt)
out=[]
for p in parts:
    if not p.strip(): continue
    m=re.search(r'(?m)^\+\+\+ (\S+)',p)
    if m and (m.group(1).endswith('_test.go') or m.group(1).endswith('.elvts')): continue
    out.append(p)
sys.stdout.write(''.join(out))
PY
git apply --recount -p1 /dev/shm/fix.diff || patch -p1 < /dev/shm/fix.diff
gofmt -l pkg | head
if ! go test -count=1 "$@" 2>&1 | grep -v "^ok\|no test files" | tail -25 | tee /dev/shm/fix.test | grep -q "^FAIL\|FAIL	"; then
  git commit -qam "$msg"; git log --oneline | head -1
else
  cat /dev/shm/fix.test; echo "TESTS FAILED - reverting"; git checkout -- .; exit 1
fi
