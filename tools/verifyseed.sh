#!/bin/bash
# verifyseed.sh <id>: runs the seed's demonstration with and without the change in its worktree
export GOFLAGS=-mod=mod GOPROXY=off GOSUMDB=off GOTOOLCHAIN=local
wt=/tmp/seed/$1; cd $wt || exit 1
demo=$(git ls-files --others --exclude-standard | grep '_test.go$' | head -1)
pkg=./$(dirname $demo)/
git diff > /dev/shm/vs-$1.patch
with=$(go test -count=1 -run 'Seed' $pkg 2>&1 | tail -1 | awk '{print $1}')
git apply -R /dev/shm/vs-$1.patch
without=$(go test -count=1 -run 'Seed' $pkg 2>&1 | tail -1 | awk '{print $1}')
git apply /dev/shm/vs-$1.patch
echo "$1 demo=$demo with-change=$with without-change=$without"
