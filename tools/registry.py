# property id -> how to build and run its harness, and what MANIFEST.json says about it.
P = "src.elv.sh/pkg/"
ENUM = "bounded-exhaustive enumeration (small-scope model checking of the real code)"
CHECKS = {
    "C01": dict(pkg=P + "parse", test="TestVerifC01", level="exploration", engine="enum",
                technique="exhaustive enumeration of all source strings up to a length bound over a byte and a token alphabet, tree-tiling oracle on every parse",
                text="Every string of <=5 (thorough <=6) symbols over a 16-symbol byte alphabet and <=4 (<=5) tokens over a 35-token alphabet is parsed by the real parser; every clause of the losslessness statement is checked on every tree. Exhaustive within the bound, so the shortest counterexample is found first.",
                note="Inputs outside the alphabets/lengths are not covered; non-termination is observed through a 300 s per-case watchdog."),
}
NOT_APPLICABLE = {}
ENGINES = [
    {"name": "enum", "path": "engine/vk", "serves_properties": [], "kind_free_text": "bounded-exhaustive enumeration kernel (odometer over alphabets, sharded over 16 workers, class-key accounting, known-finding matching, evidence writer)"},
]
