# Loads /verif/checks/Cnn.json: how to build and run each property's harness, and what MANIFEST.json says about it.
import json, os, glob
V = os.path.dirname(os.path.dirname(os.path.abspath(__file__)))
CHECKS = {}
for f in sorted(glob.glob(os.path.join(V, "checks", "*.json"))):
    if os.path.basename(f) in ("not_applicable.json", "engines.json"):
        continue
    CHECKS[os.path.basename(f)[:-5]] = json.load(open(f))
NOT_APPLICABLE = json.load(open(os.path.join(V, "checks", "not_applicable.json")))
ENGINES = json.load(open(os.path.join(V, "checks", "engines.json")))
for e in ENGINES:
    e["serves_properties"] = sorted(p for p, s in CHECKS.items() if s.get("engine") == e["name"])
