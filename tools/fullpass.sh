#!/bin/bash
# Runs every registered quick check once against /repo and summarises (refreshes /verif/evidence).
cd /verif; export GOFLAGS=-mod=mod GOPROXY=off GOSUMDB=off GOTOOLCHAIN=local
tier=${1:-quick}
for c in $(python3 -c "import json; print(' '.join(x['property_id'] for x in json.load(open('MANIFEST.json'))['checks']))"); do
  t0=$(date +%s); ./check $c $tier > .build/pass-$c.out 2>&1; rc=$?; t1=$(date +%s)
  echo "$c rc=$rc $((t1-t0))s $(grep EVIDENCE .build/pass-$c.out | sed 's/EVIDENCE property=[A-Z0-9]* //')"
  grep "^VIOLATION\|^HARNESS" .build/pass-$c.out | cut -c1-300
done
