#!/usr/bin/env python3
import json,sys
pid=sys.argv[1]
wt=sys.argv[2] if len(sys.argv)>2 else pid
avoid=sys.argv[3] if len(sys.argv)>3 else ''
for l in open('/verif/properties.jsonl'):
    p=json.loads(l)
    if p['id']==pid: break
print(f"""You are testing a verification framework's blind spots. You have a scratch git worktree of the Go project elves/elvish at /tmp/seed/{wt} (work ONLY there; never touch /repo and never read anything under /verif). Offline sandbox, Go 1.23.5: always `export GOFLAGS=-mod=mod GOPROXY=off GOSUMDB=off GOTOOLCHAIN=local`.

Semantic property that should hold of elvish:
  Title: {p['title']}
  Statement: {p['statement']}
  Code it is anchored in: {', '.join(p['anchors']['files'])}

{avoid}Task: make ONE realistic change to the elvish source in your worktree (non-test files only, a few lines, the kind of slip a developer could make in a refactoring) that BREAKS this property while the project still compiles and its whole existing test suite still passes. The breakage must need something specific to manifest - a particular interleaving, a fault or interrupt at a particular point, a multi-step sequence of operations, an unusual input, or two cooperating sites that each look fine alone - not something ordinary use would expose at once. Then write a demonstration (a Go test file or small Go program inside the worktree, e.g. pkg/.../zz_seed_demo_test.go) that FAILS with your change and PASSES without it (verify both by reverting your edit temporarily with `git diff > /tmp/seed/<id>.patch; git apply -R /tmp/seed/<id>.patch; ...; git apply /tmp/seed/<id>.patch` - do NOT use git stash: it is shared between worktrees). If the demonstration depends on scheduling, make it reliable (loops, many iterations, runtime.Gosched, or hooks you add only in the demo file), and say how often it fails.

Verify the existing tests: run at least the test packages that could be affected plus `go build ./...`, and finally `go test -count=1 ./... 2>&1 | grep -v '^ok\\|no test files' | tail` (tests known to be flaky under machine load, e.g. terminal-timing tests in pkg/edit, pkg/cli, pkg/shell, may be re-run individually). Keep your change and your demo file as UNCOMMITTED modifications in the worktree.

Final answer (concise): the files changed; `git diff` of the source change; what exactly is needed for the breakage to manifest; the demo file path and the exact command to run it; observed results with and without the change; which tests you ran.""")
