#!/usr/bin/env python3
"""Regenerates the tables of DESIGN.md sections 8.5 (seeded changes) and 8.6 (per-property status)
from seeded/*/meta.json (+ last_run.txt), checks/*.json, evidence/*.json and known_findings.txt."""
import json, glob, os, re
V = os.path.dirname(os.path.dirname(os.path.abspath(__file__)))
def cell(s, n=400):
    s = s.replace("|", "/").replace("\n", " ")
    return s if len(s) <= n else s[:n - 1] + "…"
rows5 = ["| Seed | Change (file) | Needs to manifest | First run | Now (current checks, /repo HEAD) |", "|---|---|---|---|---|"]
for p in sorted(glob.glob(V + "/seeded/C*/meta.json")):
    m = json.load(open(p)); s = os.path.basename(os.path.dirname(p))
    o = m["outcome"]
    if o.startswith("DETECTED"):
        first = "detected"
    elif o.startswith("MISSED"):
        first = "missed; " + o.split(";", 1)[0].split("(", 1)[-1].rstrip(")") if "(" in o.split(";", 1)[0] else "missed"
        if "but DETECTED by" in o:
            first += " (" + re.search(r"but (DETECTED by the C\d\d check)", o).group(1).lower() + ")"
    else:
        first = "n/a: " + o.split(";")[0]
    lr = os.path.join(os.path.dirname(p), "last_run.txt")
    now = "-"
    if os.path.exists(lr):
        parts = []
        for l in open(lr):
            mm = re.match(r"check (C\d\d) exit (\d+) keys: (.*)", l)
            if mm:
                keys = mm.group(3).split()
                parts.append("%s: %s" % (mm.group(1), ("VIOLATION " + ", ".join(keys[:3]) + (" …(+%d)" % (len(keys) - 3) if len(keys) > 3 else "")) if mm.group(2) == "1" else ("quiet" if mm.group(2) == "0" else "harness error")))
        now = "; ".join(parts)
    rows5.append("| %s | %s | %s | %s | %s |" % (s, ", ".join(m["files_changed"]), cell(m["needs_to_manifest"], 260), cell(first, 200), cell(now, 300)))
known = open(V + "/known_findings.txt").read().splitlines()
rows6 = ["| Property | Level | Engine | Cases / schedules (quick) | Distinct classes | Exhaustive | thorough tier, last run: cases / exhaustive | fix: commits | known findings |", "|---|---|---|---|---|---|---|---|---|"]
for p in sorted(glob.glob(V + "/checks/C*.json")):
    pid = os.path.basename(p)[:-5]; c = json.load(open(p))
    ev = {}
    try: ev = json.load(open(V + "/evidence/%s.json" % pid))
    except Exception: pass
    cov = ev.get("coverage", {})
    nfix = sum(1 for l in known if l.startswith("fixed:") and "property=%s " % pid in l)
    nfind = sum(1 for l in known if l.startswith("finding:") and "property=%s " % pid in l)
    n = cov.get("evaluations", cov.get("schedules", 0))
    th = "-"
    try:
        tev = json.load(open(V + "/evidence-thorough/%s.json" % pid)); tc = tev["coverage"]
        th = "%s / %s (%ds)" % (format(tc.get("evaluations", 0), ","), "yes" if tc.get("exhaustive") else "capped by the 900 s budget", int(tev.get("wall_s", 0)))
    except Exception: pass
    rows6.append("| %s | %s | %s | %s | %s | %s | %s | %d | %d |" % (pid, c["level"], c["engine"], format(n, ","), format(cov.get("distinct_nontrivial", 0), ","),
                 ("yes" if cov.get("exhaustive") else "capped") + " (%s)" % ev.get("tier", "?"), th, nfix, nfind))
d = open(V + "/DESIGN.md").read()
def repl(d, begin, end, rows):
    i = d.index(begin); j = d.index(end, i) if end else len(d)
    seg = d[i:j]
    k = seg.index("\n| ")
    # keep the prose before the first table row, replace the table
    tail_start = k
    lines = seg[k + 1:].split("\n")
    n = 0
    while n < len(lines) and lines[n].startswith("|"): n += 1
    rest = "\n".join(lines[n:])
    return d[:i] + seg[:k + 1] + "\n".join(rows) + "\n" + rest + d[j:]
d = repl(d, "### 8.5 Seeded changes", "### 8.6 Per-property status", rows5)
d = repl(d, "### 8.6 Per-property status", None, rows6)
open(V + "/DESIGN.md", "w").write(d)
print("tables regenerated: %d seeds, %d properties" % (len(rows5) - 2, len(rows6) - 2))
