#!/usr/bin/env python3
"""Compiles every harness binary once (into a scratch dir that is removed) so the Go build cache is warm."""
import os, subprocess, sys, shutil, json
V = os.path.dirname(os.path.dirname(os.path.abspath(__file__)))
sys.path.insert(0, os.path.join(V, "tools"))
import importlib.util
spec = importlib.util.spec_from_loader("check", loader=None)
src = open(os.path.join(V, "check")).read()
ns = {"__file__": os.path.join(V, "check"), "__name__": "check_lib"}
exec(compile(src, "check", "exec"), ns)
from registry import CHECKS
env = ns["goenv"]()
bd = "/dev/shm/verif-prebuild-%d" % os.getpid()
os.makedirs(bd, exist_ok=True)
ok = True
try:
    seen = set()
    for pid, s in sorted(CHECKS.items()):
        key = (s["pkg"], json.dumps(s.get("rewrite"), sort_keys=True), s.get("race"))
        if key in seen:
            continue
        seen.add(key)
        extra = ns["run_rewriter"](s["rewrite"], bd, env) if s.get("rewrite") else {}
        ov = ns["build_overlay"](bd, extra)
        cmd = ["go", "test", "-c", "-tags", "verif", "-overlay", ov, "-vet=off", "-o", os.path.join(bd, "x.test"), s["pkg"]]
        r = subprocess.run(cmd, cwd=ns["REPO"], env=env, capture_output=True, text=True)
        print("prebuild", pid, s["pkg"], "ok" if r.returncode == 0 else "FAILED\n" + r.stdout + r.stderr, flush=True)
        ok = ok and r.returncode == 0
finally:
    shutil.rmtree(bd, ignore_errors=True)
sys.exit(0 if ok else 1)
