#!/usr/bin/env python3
"""record_seed.py <Cnn> <worktree> <needs> <outcome> : copies the seeded change and its demonstration into /verif/seeded/<Cnn>/"""
import json, os, subprocess, sys, shutil
pid, wt, needs, outcome = sys.argv[1:5]
name = sys.argv[5] if len(sys.argv) > 5 else pid
d = f"/verif/seeded/{name}"
os.makedirs(d, exist_ok=True)
diff = subprocess.run(["git", "diff"], cwd=wt, capture_output=True, text=True).stdout
open(f"{d}/patch.diff", "w").write(diff)
new = subprocess.run(["git", "ls-files", "--others", "--exclude-standard"], cwd=wt, capture_output=True, text=True).stdout.split()
demos = []
for f in new:
    if f.endswith(".go") or f.endswith(".elv") or f.endswith(".sh"):
        os.makedirs(os.path.dirname(f"{d}/demo/{f}"), exist_ok=True)
        shutil.copy(os.path.join(wt, f), f"{d}/demo/{f}")
        demos.append(f)
prop = [json.loads(l) for l in open("/verif/properties.jsonl") if json.loads(l)["id"] == pid][0]
meta = {"property": pid, "title": prop["title"], "files_changed": [l[6:] for l in diff.splitlines() if l.startswith("+++ b/")],
        "needs_to_manifest": needs, "demonstration_files": demos,
        "what_was_run": "change written by an independent sub-agent that saw only the property text; I re-ran the demonstration with and without the change, the affected elvish test packages with the change, and ./check %s quick with the change applied to /repo (git apply; git checkout -- . afterwards)" % pid,
        "outcome": outcome}
json.dump(meta, open(f"{d}/meta.json", "w"), indent=1)
print("recorded", d, demos)
