#!/usr/bin/env python3
import sys
pid, hints = sys.argv[1], sys.argv[2] if len(sys.argv) > 2 else "(none)"
t = open('/verif/tools/agent_prompt.txt').read()
print(t.replace('{PID}', pid).replace('{pid}', pid.lower()).replace('{HINTS}', hints))
