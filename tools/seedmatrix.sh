#!/bin/bash
# seedmatrix.sh [id...]: re-runs every recorded seeded change against the *current* checks and the current /repo HEAD.
# Each change is applied in a scratch worktree of /repo's HEAD (never in /repo itself), the check(s) named in
# seeded/<id>/checks (default: the property's own check) run against it with VERIF_REPO, and the worktree is removed.
# Output: seeded/<id>/last_run.txt (exit code + violation keys) and a summary line per seed.
cd /verif; export GOFLAGS=-mod=mod GOPROXY=off GOSUMDB=off GOTOOLCHAIN=local
ids=${@:-$(ls seeded | grep '^C')}
mkdir -p /tmp/seed /dev/shm/seedrep
for s in $ids; do
  wt=/tmp/seed/m-$s
  git -C /repo worktree remove --force $wt >/dev/null 2>&1
  git -C /repo worktree add --detach $wt HEAD >/dev/null 2>&1 || { echo "$s worktree failed"; continue; }
  if ! git -C $wt apply /verif/seeded/$s/patch.diff; then echo "$s patch does not apply"; git -C /repo worktree remove --force $wt; continue; fi
  checks=${s:0:3}; [ -f seeded/$s/checks ] && checks=$(cat seeded/$s/checks)
  : > seeded/$s/last_run.txt
  echo "base $(git -C /repo rev-parse --short HEAD)" >> seeded/$s/last_run.txt
  for c in $checks; do
    VERIF_REPO=$wt VERIF_EVIDENCE=/dev/shm/seedev-$s-$c.json VERIF_REPLAYS=/dev/shm/seedrep ./check $c quick > /dev/shm/seedout-$s-$c.txt 2>&1; rc=$?
    keys=$(grep '^VIOLATION' /dev/shm/seedout-$s-$c.txt | sed 's/.*key=\([^ ]*\).*/\1/' | sort -u | tr '\n' ' ')
    echo "check $c exit $rc keys: $keys" >> seeded/$s/last_run.txt
    echo "$s vs $c: exit $rc keys: $(echo $keys | cut -c1-200)"
    rm -f /dev/shm/seedev-$s-$c.json /dev/shm/seedout-$s-$c.txt
  done
  git -C /repo worktree remove --force $wt; git -C /repo worktree prune
done
rm -rf /dev/shm/seedrep
