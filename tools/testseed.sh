#!/bin/bash
# usage: testseed.sh <seed worktree id> <check id>...   runs the checks against the seed worktree (not /repo)
cd /verif; export GOFLAGS=-mod=mod GOPROXY=off GOSUMDB=off GOTOOLCHAIN=local
s=$1; shift
mkdir -p /dev/shm/seedrep
for c in "$@"; do
  echo "--- seed $s vs check $c"
  VERIF_REPO=/tmp/seed/$s VERIF_EVIDENCE=/dev/shm/seedev-$s-$c.json VERIF_REPLAYS=/dev/shm/seedrep ./check $c quick 2>&1 | grep "EVIDENCE\|VIOLATION\|HARNESS" | sed 's/schedule \[[0-9 ]*\]//' | cut -c1-260 | head -5
done
