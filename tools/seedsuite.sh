#!/bin/bash
# seedsuite.sh <seed name>...: applies the recorded change to a scratch worktree of /repo HEAD and runs elvish's own
# test suite with it (packages that fail are re-run alone once: terminal-timing tests are flaky under machine load).
export GOFLAGS=-mod=mod GOPROXY=off GOSUMDB=off GOTOOLCHAIN=local
for s in "$@"; do
  wt=/tmp/seed/t-$s
  git -C /repo worktree remove --force $wt >/dev/null 2>&1
  git -C /repo worktree add --detach $wt HEAD >/dev/null 2>&1
  git -C $wt apply /verif/seeded/$s/patch.diff || { echo "$s: patch does not apply"; continue; }
  # VERIF_SEEDSUITE_FOCUS=1: only the changed packages and the packages built on them (much faster under load)
  pk="./..."
  if [ -n "$VERIF_SEEDSUITE_FOCUS" ]; then
    pk=$(git -C $wt diff --name-only | xargs -n1 dirname | sort -u | sed 's#^#./#' | tr '\n' ' ')
    case "$pk" in *pkg/eval*|*pkg/persistent*|*pkg/parse*|*pkg/glob*|*pkg/strutil*|*pkg/diag*) pk="$pk ./pkg/eval/... ./pkg/mods/... ./pkg/shell/";; esac
    case "$pk" in *pkg/cli*|*pkg/ui*|*pkg/edit*|*pkg/eval*|*pkg/parse*) pk="$pk ./pkg/edit/... ./pkg/cli/...";; esac
    case "$pk" in *pkg/store*|*pkg/rpc*|*pkg/daemon*) pk="$pk ./pkg/store/... ./pkg/daemon/... ./pkg/cli/histutil/";; esac
  fi
  failed=$(cd $wt && go test -count=1 $pk 2>&1 | grep '^FAIL\s' | awk '{print $2}' | sort -u)
  still=""
  for p in $failed; do (cd $wt && go test -count=1 $p >/dev/null 2>&1) || still="$still $p"; done
  if [ -z "$still" ]; then echo "$s: suite passes with the change (re-run alone: ${failed:-none})"; else echo "$s: SUITE FAILS with the change:$still"; fi
  git -C /repo worktree remove --force $wt; git -C /repo worktree prune
done
