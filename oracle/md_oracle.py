#!/root/miniconda/bin/python
"""CommonMark reference oracle for check C35 (markdown-it-py, 'commonmark' preset).

Long-lived worker: reads batches of documents from stdin and writes, for each
document, the reference HTML plus the facts the harness needs to decide whether
the document lies in the subset elvish documents as supported.

Protocol (binary, stdin -> stdout), repeated until EOF:
    request :  "<N>\n"  then N times  "<len>\n" <len bytes of UTF-8>
    response:  N times  "<flags> <len>\n" <len bytes of UTF-8>   then flush
flags is a string of letters ("-" if none):
    S  the reference parser recognised a setext heading          (omission)
    R  the reference parser recognised a link reference definition (omission)
    T  the document contains a tight list (rendered here as loose, see below)
    E  the reference implementation raised an exception (payload = message)

Elvish documents that "lists are always considered loose".  In markdown-it the
only effect of tightness is the `hidden` flag on the paragraph tokens of the
items, so the oracle clears that flag before rendering: the HTML returned is
what CommonMark prescribes for the same document with every list loose.

markdown-it also post-processes link destinations beyond CommonMark: it parses
and re-serialises them as URLs (trimming spaces, dropping an empty user-info or
port, punycoding host names) and percent-decodes autolink texts.  CommonMark
only shows percent-encoding of the destination as written, so the oracle
replaces that step by plain percent-encoding (mdurl.encode) and leaves the link
text alone.  All other normalisation happens (symmetrically) in the harness.
"""
import sys


def main():
    from markdown_it import MarkdownIt

    import mdurl

    md = MarkdownIt("commonmark")
    md.normalizeLink = lambda url: mdurl.encode(url)
    md.normalizeLinkText = lambda url: url
    inp = sys.stdin.buffer
    out = sys.stdout.buffer
    while True:
        head = inp.readline()
        if not head:
            return
        n = int(head)
        docs = []
        for _ in range(n):
            ln = int(inp.readline())
            docs.append(inp.read(ln))
        res = []
        for raw in docs:
            try:
                src = raw.decode("utf-8")
                env = {}
                tokens = md.parse(src, env)
                flags = ""
                for t in tokens:
                    if t.hidden:
                        t.hidden = False
                        if "T" not in flags:
                            flags += "T"
                    elif t.type == "heading_open" and t.markup in ("=", "-") and "S" not in flags:
                        flags += "S"
                if env.get("references"):
                    flags += "R"
                html = md.renderer.render(tokens, md.options, env).encode("utf-8")
            except Exception as e:  # noqa: BLE001 - reported to the harness, never hidden
                flags = "E"
                html = ("%s: %s" % (type(e).__name__, e)).encode("utf-8", "replace")
            res.append(b"%s %d\n" % ((flags or "-").encode(), len(html)))
            res.append(html)
        out.write(b"".join(res))
        out.flush()


if __name__ == "__main__":
    main()
