// Command rewrite emits, for the configured packages of the elvish working
// tree, copies of their source files in which goroutine starts, channel
// operations, select statements and the sync / sync/atomic imports are
// redirected to the controlled scheduler (src.elv.sh/pkg/zzverif/vsched and
// its vsync / vatomic shims). It prints a JSON object mapping original file
// paths to rewritten copies (the extra entries of the build overlay).
package main

import (
	"bytes"
	"encoding/json"
	"flag"
	"fmt"
	"go/ast"
	"go/constant"
	"go/format"
	"go/token"
	"go/types"
	"os"
	"path/filepath"
	"strconv"
	"strings"

	"golang.org/x/tools/go/ast/astutil"
	"golang.org/x/tools/go/packages"
)

type CallPoint struct {
	Pkg   string `json:"pkg"`   // package path being rewritten
	Call  string `json:"call"`  // textual form of the callee, e.g. "db.Update" or "os.Remove"
	Label string `json:"label"` // point label
}

// SharedMap names a map-typed field (matched by selector name within a package)
// whose reads, writes and deletes are routed through vsched.MapRead*/MapWrite/
// MapDelete, which open an access window around the operation so that the
// explorer can detect two goroutines inside conflicting windows (a data race on
// the map, which the Go runtime reports as a fatal "concurrent map" error).
type SharedMap struct {
	Pkg      string `json:"pkg"`
	Selector string `json:"selector"`
	Loc      string `json:"loc"`
}

type CallRepl struct {
	Pkg  string `json:"pkg"`
	Call string `json:"call"` // e.g. "net.Dial"
	With string `json:"with"` // e.g. "vsched.Hook(\"dial\").(func(string,string)(net.Conn,error))" or a package-level identifier
}

type Config struct {
	Packages   []string          `json:"packages"`
	KeepSync   []string          `json:"keep_sync"`  // file base names whose sync import is left alone
	SkipFiles  []string          `json:"skip_files"` // file base names not rewritten at all
	OnlyFiles  []string          `json:"only_files"` // if set: only these file base names are rewritten
	Points     []CallPoint       `json:"points"`
	Replace    []CallRepl        `json:"replace"`
	ImportRepl map[string]string `json:"import_replace"` // import path -> replacement path (per all rewritten files)
	CopyPkgs   map[string]string `json:"copy_pkgs"`      // virtual import path -> source directory to copy+rewrite (dependency sources)
	TimeAfter  bool              `json:"time_after"`     // time.After -> vsched.After
	SharedMaps []SharedMap       `json:"shared_maps"`    // map-typed struct fields whose accesses are modelled as non-atomic
}

const (
	vschedPath  = "src.elv.sh/pkg/zzverif/vsched"
	vsyncPath   = "src.elv.sh/pkg/zzverif/vsync"
	vatomicPath = "src.elv.sh/pkg/zzverif/vatomic"
)

var stats = map[string]int{}

func main() {
	repo := flag.String("repo", "/repo", "")
	out := flag.String("out", "", "")
	cfgPath := flag.String("config", "", "")
	flag.Parse()
	var cfg Config
	data, err := os.ReadFile(*cfgPath)
	must(err)
	must(json.Unmarshal(data, &cfg))
	result := map[string]string{}

	pcfg := &packages.Config{
		Mode: packages.NeedName | packages.NeedFiles | packages.NeedCompiledGoFiles | packages.NeedSyntax |
			packages.NeedTypes | packages.NeedTypesInfo | packages.NeedImports,
		Dir:        *repo,
		BuildFlags: []string{"-tags", "verif"},
		Env:        append(os.Environ(), "GOFLAGS=-mod=mod", "GOPROXY=off", "GOSUMDB=off", "GOTOOLCHAIN=local"),
	}
	if eo := os.Getenv("VERIF_EXTRA_OVERLAY"); eo != "" {
		// mutation demonstrations: read edited private copies instead of the repository files
		var m map[string]string
		must(json.Unmarshal([]byte(eo), &m))
		pcfg.Overlay = map[string][]byte{}
		for orig, repl := range m {
			data, err := os.ReadFile(repl)
			must(err)
			pcfg.Overlay[orig] = data
		}
	}
	pats := append([]string{}, cfg.Packages...)
	for _, dir := range cfg.CopyPkgs {
		pats = append(pats, dir)
	}
	// Dependency source dirs are loaded by import path too (they are in the module graph).
	pkgs, err := packages.Load(pcfg, pats...)
	must(err)
	for _, p := range pkgs {
		if len(p.Errors) > 0 {
			fmt.Fprintf(os.Stderr, "rewrite: errors loading %s: %v\n", p.PkgPath, p.Errors)
			os.Exit(1)
		}
		virtual := ""
		for vp, src := range cfg.CopyPkgs {
			if src == p.PkgPath {
				virtual = vp
			}
		}
		for i, f := range p.Syntax {
			path := p.CompiledGoFiles[i]
			base := filepath.Base(path)
			if contains(cfg.SkipFiles, base) && virtual == "" {
				continue
			}
			if len(cfg.OnlyFiles) > 0 && !contains(cfg.OnlyFiles, base) && virtual == "" {
				continue
			}
			if strings.HasSuffix(base, "_test.go") {
				continue
			}
			rw := &rewriter{cfg: &cfg, pkg: p, file: f, fset: p.Fset, keepSync: contains(cfg.KeepSync, base)}
			changed := rw.rewrite()
			if !changed && virtual == "" {
				continue
			}
			var buf bytes.Buffer
			must(format.Node(&buf, p.Fset, f))
			src := buf.Bytes()
			if !bytes.Contains(src, []byte("//go:build")) {
				// keep as is; file applies under all tags the original applied under
			}
			rel := strings.ReplaceAll(p.PkgPath, "/", "_") + "__" + base
			dst := filepath.Join(*out, rel)
			must(os.WriteFile(dst, src, 0o644))
			if virtual != "" {
				vdir := filepath.Join(*repo, strings.TrimPrefix(virtual, "src.elv.sh/"))
				result[filepath.Join(vdir, base)] = dst
			} else {
				result[path] = dst
			}
		}
	}
	enc, _ := json.Marshal(result)
	fmt.Println(string(enc))
	var keys []string
	for k, v := range stats {
		keys = append(keys, fmt.Sprintf("%s=%d", k, v))
	}
	fmt.Fprintln(os.Stderr, "rewrite stats:", strings.Join(keys, " "))
}

func must(err error) {
	if err != nil {
		fmt.Fprintln(os.Stderr, "rewrite:", err)
		os.Exit(1)
	}
}

func contains(xs []string, x string) bool {
	for _, y := range xs {
		if x == y {
			return true
		}
	}
	return false
}

type rewriter struct {
	cfg      *Config
	pkg      *packages.Package
	file     *ast.File
	fset     *token.FileSet
	keepSync bool
	changed  bool
	needV    bool
	skip     map[ast.Node]bool
	tmpN     int
}

func (r *rewriter) vs(name string) ast.Expr {
	r.needV = true
	r.changed = true
	return &ast.SelectorExpr{X: ast.NewIdent("vsched_"), Sel: ast.NewIdent(name)}
}

func (r *rewriter) tmp(prefix string) *ast.Ident {
	r.tmpN++
	return ast.NewIdent(fmt.Sprintf("vz_%s%d", prefix, r.tmpN))
}

func (r *rewriter) isChan(e ast.Expr) bool {
	t := r.pkg.TypesInfo.TypeOf(e)
	if t == nil {
		return false
	}
	_, ok := t.Underlying().(*types.Chan)
	return ok
}

func (r *rewriter) sharedMapLoc(e ast.Expr) string {
	ix, ok := e.(*ast.IndexExpr)
	var x ast.Expr
	if ok {
		x = ix.X
	} else {
		x = e
	}
	sel, ok := x.(*ast.SelectorExpr)
	if !ok {
		return ""
	}
	for _, sm := range r.cfg.SharedMaps {
		if sm.Pkg == r.pkg.PkgPath && sm.Selector == sel.Sel.Name {
			if t := r.pkg.TypesInfo.TypeOf(x); t != nil {
				if _, isMap := t.Underlying().(*types.Map); isMap {
					return sm.Loc
				}
			}
		}
	}
	return ""
}

func strLit(s string) ast.Expr { return &ast.BasicLit{Kind: token.STRING, Value: strconv.Quote(s)} }

func (r *rewriter) isBuiltin(id *ast.Ident, name string) bool {
	if id.Name != name {
		return false
	}
	_, ok := r.pkg.TypesInfo.Uses[id].(*types.Builtin)
	return ok
}

func (r *rewriter) isPkgFunc(e ast.Expr, pkgPath, name string) bool {
	sel, ok := e.(*ast.SelectorExpr)
	if !ok || sel.Sel.Name != name {
		return false
	}
	id, ok := sel.X.(*ast.Ident)
	if !ok {
		return false
	}
	pn, ok := r.pkg.TypesInfo.Uses[id].(*types.PkgName)
	return ok && pn.Imported().Path() == pkgPath
}

func exprText(e ast.Expr) string {
	switch e := e.(type) {
	case *ast.Ident:
		return e.Name
	case *ast.SelectorExpr:
		return exprText(e.X) + "." + e.Sel.Name
	}
	return ""
}

func (r *rewriter) rewrite() bool {
	r.skip = map[ast.Node]bool{}
	// imports
	for _, imp := range r.file.Imports {
		p, _ := strconv.Unquote(imp.Path.Value)
		switch {
		case p == "sync" && !r.keepSync:
			imp.Path.Value = strconv.Quote(vsyncPath)
			if imp.Name == nil {
				imp.Name = ast.NewIdent("sync")
			}
			r.changed = true
			stats["import-sync"]++
		case p == "sync/atomic" && !r.keepSync:
			imp.Path.Value = strconv.Quote(vatomicPath)
			if imp.Name == nil {
				imp.Name = ast.NewIdent("atomic")
			}
			r.changed = true
			stats["import-atomic"]++
		default:
			if np, ok := r.cfg.ImportRepl[p]; ok {
				if imp.Name == nil {
					imp.Name = ast.NewIdent(filepath.Base(p))
				}
				imp.Path.Value = strconv.Quote(np)
				r.changed = true
				stats["import-replaced"]++
			}
		}
	}
	mapWrite := map[ast.Node]bool{}
	mapRead2 := map[ast.Node]bool{}
	pre := func(c *astutil.Cursor) bool {
		if as, ok := c.Node().(*ast.AssignStmt); ok && len(r.cfg.SharedMaps) > 0 {
			if len(as.Lhs) == 1 && len(as.Rhs) == 1 && as.Tok == token.ASSIGN {
				if _, isIx := as.Lhs[0].(*ast.IndexExpr); isIx && r.sharedMapLoc(as.Lhs[0]) != "" {
					mapWrite[as] = true
					r.skip[as.Lhs[0]] = true
				}
			}
			if len(as.Lhs) == 2 && len(as.Rhs) == 1 {
				if _, isIx := as.Rhs[0].(*ast.IndexExpr); isIx && r.sharedMapLoc(as.Rhs[0]) != "" {
					mapRead2[as.Rhs[0]] = true
				}
			}
		}
		if sel, ok := c.Node().(*ast.SelectStmt); ok {
			for _, cl := range sel.Body.List {
				cc := cl.(*ast.CommClause)
				if cc.Comm == nil {
					continue
				}
				r.skip[cc.Comm] = true
				switch s := cc.Comm.(type) {
				case *ast.ExprStmt:
					r.skip[ast.Unparen(s.X)] = true
				case *ast.AssignStmt:
					r.skip[ast.Unparen(s.Rhs[0])] = true
				}
			}
		}
		return true
	}
	post := func(c *astutil.Cursor) bool {
		n := c.Node()
		if r.skip[n] {
			return true
		}
		switch n := n.(type) {
		case *ast.GoStmt:
			c.Replace(r.goStmt(n))
			stats["go"]++
		case *ast.SendStmt:
			c.Replace(&ast.ExprStmt{X: &ast.CallExpr{Fun: &ast.CallExpr{Fun: r.vs("SendTo"), Args: []ast.Expr{n.Chan}}, Args: []ast.Expr{n.Value}}})
			stats["send"]++
		case *ast.UnaryExpr:
			if n.Op == token.ARROW {
				c.Replace(&ast.CallExpr{Fun: r.vs("Recv"), Args: []ast.Expr{n.X}})
				stats["recv"]++
			}
		case *ast.IndexExpr:
			if loc := r.sharedMapLoc(n); loc != "" {
				fn := "MapRead1"
				if mapRead2[n] {
					fn = "MapRead2"
				}
				c.Replace(&ast.CallExpr{Fun: r.vs(fn), Args: []ast.Expr{strLit(loc), n.X, n.Index}})
				stats["shared-map-read"]++
			}
		case *ast.AssignStmt:
			if mapWrite[n] {
				ix := n.Lhs[0].(*ast.IndexExpr)
				loc := r.sharedMapLoc(ix)
				c.Replace(&ast.ExprStmt{X: &ast.CallExpr{Fun: r.vs("MapWrite"), Args: []ast.Expr{strLit(loc), ix.X, ix.Index, n.Rhs[0]}}})
				stats["shared-map-write"]++
				return true
			}
			if len(n.Lhs) == 2 && len(n.Rhs) == 1 {
				r.fixRecv2(n.Rhs[0])
			}
		case *ast.ValueSpec:
			if len(n.Names) == 2 && len(n.Values) == 1 {
				r.fixRecv2(n.Values[0])
			}
		case *ast.CallExpr:
			r.fileReads(n)
			if id, ok := n.Fun.(*ast.Ident); ok && r.isBuiltin(id, "delete") && len(n.Args) == 2 && r.sharedMapLoc(n.Args[0]) != "" {
				loc := r.sharedMapLoc(n.Args[0])
				n.Fun = r.vs("MapDelete")
				n.Args = []ast.Expr{strLit(loc), n.Args[0], n.Args[1]}
				stats["shared-map-delete"]++
			} else if id, ok := n.Fun.(*ast.Ident); ok && r.isBuiltin(id, "close") {
				n.Fun = r.vs("Close")
				stats["close"]++
			} else if r.cfg.TimeAfter && r.isPkgFunc(n.Fun, "time", "After") {
				n.Fun = r.vs("After")
				stats["time.After"]++
			} else {
				txt := exprText(n.Fun)
				for _, rp := range r.cfg.Replace {
					if rp.Pkg == r.pkg.PkgPath && rp.Call == txt {
						e, err := parseExpr(rp.With)
						must(err)
						n.Fun = e
						r.changed = true
						if strings.Contains(rp.With, "vsched_.") {
							r.needV = true
						}
						stats["call-replaced"]++
					}
				}
			}
		case *ast.RangeStmt:
			if r.isChan(n.X) {
				c.Replace(r.rangeChan(n))
				stats["range-chan"]++
			}
		case *ast.SelectStmt:
			if lab, ok := c.Parent().(*ast.LabeledStmt); ok {
				_ = lab
				panic(fmt.Sprintf("%s: labeled select is not supported by the rewriter", r.fset.Position(n.Pos())))
			}
			c.Replace(r.selectStmt(n))
			stats["select"]++
		case *ast.ExprStmt:
			// configured call-site points: insert a point before the statement
			if call, ok := n.X.(*ast.CallExpr); ok {
				if lbl := r.pointLabel(call); lbl != "" && insertable(c) {
					c.InsertBefore(r.pointStmt(lbl))
				}
			}
		case *ast.ReturnStmt, *ast.IfStmt:
			// points before calls nested in assignments / returns are handled below for AssignStmt;
		}
		if as, ok := n.(*ast.AssignStmt); ok && insertable(c) {
			for _, rhs := range as.Rhs {
				if call, ok := rhs.(*ast.CallExpr); ok {
					if lbl := r.pointLabel(call); lbl != "" {
						c.InsertBefore(r.pointStmt(lbl))
					}
				}
			}
		}
		if rs, ok := n.(*ast.ReturnStmt); ok && insertable(c) {
			for _, rhs := range rs.Results {
				if call, ok := rhs.(*ast.CallExpr); ok {
					if lbl := r.pointLabel(call); lbl != "" {
						c.InsertBefore(r.pointStmt(lbl))
					}
				}
			}
		}
		return true
	}
	astutil.Apply(r.file, pre, post)
	if r.needV {
		astutil.AddNamedImport(r.fset, r.file, "vsched_", vschedPath)
	}
	if r.changed {
		// a call replacement may have removed the last use of an import
		for _, imp := range r.file.Imports {
			if imp.Name != nil && (imp.Name.Name == "_" || imp.Name.Name == ".") {
				continue
			}
			p, _ := strconv.Unquote(imp.Path.Value)
			if p == vschedPath || p == vsyncPath || p == vatomicPath {
				continue
			}
			if !astutil.UsesImport(r.file, p) {
				if imp.Name != nil {
					astutil.DeleteNamedImport(r.fset, r.file, imp.Name.Name, p)
				} else {
					astutil.DeleteImport(r.fset, r.file, p)
				}
			}
		}
	}
	return r.changed
}

// fileReads gates reads from *os.File (pipes) by the scheduler: the reader is
// wrapped so that each Read first parks until poll(2) reports the fd readable.
func (r *rewriter) fileReads(n *ast.CallExpr) {
	isFile := func(e ast.Expr) bool {
		t := r.pkg.TypesInfo.TypeOf(e)
		return t != nil && t.String() == "*os.File"
	}
	wrap := func(e ast.Expr) ast.Expr {
		stats["file-read-gated"]++
		return &ast.CallExpr{Fun: r.vs("FileReader"), Args: []ast.Expr{e}}
	}
	// any *os.File argument passed where an io.Reader parameter is expected
	if sig, ok := r.pkg.TypesInfo.TypeOf(n.Fun).(*types.Signature); ok {
		for i, a := range n.Args {
			if !isFile(a) {
				continue
			}
			var pt types.Type
			np := sig.Params().Len()
			switch {
			case sig.Variadic() && i >= np-1:
				if sl, ok := sig.Params().At(np - 1).Type().(*types.Slice); ok {
					pt = sl.Elem()
				}
			case i < np:
				pt = sig.Params().At(i).Type()
			}
			if pt != nil && pt.String() == "io.Reader" {
				n.Args[i] = wrap(a)
			}
		}
	}
	if sel, ok := n.Fun.(*ast.SelectorExpr); ok && sel.Sel.Name == "Read" && isFile(sel.X) {
		sel.X = wrap(sel.X)
	}
}

func insertable(c *astutil.Cursor) bool {
	return c.Index() >= 0
}

func parseExpr(s string) (ast.Expr, error) {
	return parserParseExpr(s)
}

func (r *rewriter) pointLabel(call *ast.CallExpr) string {
	txt := exprText(call.Fun)
	if txt == "" {
		return ""
	}
	for _, p := range r.cfg.Points {
		if p.Pkg == r.pkg.PkgPath && p.Call == txt {
			return p.Label
		}
	}
	return ""
}

func (r *rewriter) pointStmt(label string) ast.Stmt {
	stats["call-point"]++
	return &ast.ExprStmt{X: &ast.CallExpr{Fun: r.vs("Point"), Args: []ast.Expr{&ast.BasicLit{Kind: token.STRING, Value: strconv.Quote(label)}}}}
}

func (r *rewriter) fixRecv2(e ast.Expr) {
	if call, ok := ast.Unparen(e).(*ast.CallExpr); ok {
		if sel, ok := call.Fun.(*ast.SelectorExpr); ok {
			if id, ok := sel.X.(*ast.Ident); ok && id.Name == "vsched_" && sel.Sel.Name == "Recv" {
				sel.Sel.Name = "Recv2"
			}
		}
	}
}

func (r *rewriter) isConst(e ast.Expr) bool {
	tv, ok := r.pkg.TypesInfo.Types[e]
	return ok && (tv.Value != nil && tv.Value.Kind() != constant.Unknown || tv.IsNil())
}

// goStmt: `go f(a, b)` => `{ t1, t2 := a, b; vsched.Go(func() { f(t1, t2) }) }`
func (r *rewriter) goStmt(g *ast.GoStmt) ast.Stmt {
	call := g.Call
	var pre []ast.Stmt
	newArgs := make([]ast.Expr, len(call.Args))
	for i, a := range call.Args {
		if r.isConst(a) {
			newArgs[i] = a
			continue
		}
		if _, isLit := a.(*ast.FuncLit); isLit {
			newArgs[i] = a
			continue
		}
		t := r.tmp("a")
		pre = append(pre, &ast.AssignStmt{Lhs: []ast.Expr{t}, Tok: token.DEFINE, Rhs: []ast.Expr{a}})
		newArgs[i] = t
	}
	fun := call.Fun
	if sel, ok := fun.(*ast.SelectorExpr); ok {
		// method value on an expression: bind the receiver now
		if _, isPkg := r.pkg.TypesInfo.Uses[identOf(sel.X)].(*types.PkgName); !isPkg {
			if _, isIdent := sel.X.(*ast.Ident); !isIdent {
				t := r.tmp("r")
				pre = append(pre, &ast.AssignStmt{Lhs: []ast.Expr{t}, Tok: token.DEFINE, Rhs: []ast.Expr{sel.X}})
				fun = &ast.SelectorExpr{X: t, Sel: sel.Sel}
			}
		}
	}
	inner := &ast.CallExpr{Fun: fun, Args: newArgs, Ellipsis: call.Ellipsis}
	if call.Ellipsis == token.NoPos {
		inner.Ellipsis = token.NoPos
	}
	lit := &ast.FuncLit{Type: &ast.FuncType{Params: &ast.FieldList{}}, Body: &ast.BlockStmt{List: []ast.Stmt{&ast.ExprStmt{X: inner}}}}
	if fl, ok := call.Fun.(*ast.FuncLit); ok && len(call.Args) == 0 && fl.Type.Results == nil {
		lit = fl
	}
	goCall := &ast.ExprStmt{X: &ast.CallExpr{Fun: r.vs("Go"), Args: []ast.Expr{lit}}}
	if len(pre) == 0 {
		return goCall
	}
	return &ast.BlockStmt{List: append(pre, goCall)}
}

func identOf(e ast.Expr) *ast.Ident {
	id, _ := e.(*ast.Ident)
	return id
}

// rangeChan: `for v := range ch { B }` => `for { v, ok := vsched.Recv2(ch); if !ok { break }; B }`
func (r *rewriter) rangeChan(n *ast.RangeStmt) ast.Stmt {
	okv := r.tmp("ok")
	var lhs ast.Expr = ast.NewIdent("_")
	tok := token.DEFINE
	if n.Key != nil {
		lhs = n.Key
		tok = n.Tok
	}
	if tok == token.ASSIGN {
		// `for v = range ch`: ok must be declared separately
		decl := &ast.DeclStmt{Decl: &ast.GenDecl{Tok: token.VAR, Specs: []ast.Spec{&ast.ValueSpec{Names: []*ast.Ident{okv}, Type: ast.NewIdent("bool")}}}}
		recv := &ast.AssignStmt{Lhs: []ast.Expr{lhs, okv}, Tok: token.ASSIGN, Rhs: []ast.Expr{&ast.CallExpr{Fun: r.vs("Recv2"), Args: []ast.Expr{n.X}}}}
		brk := &ast.IfStmt{Cond: &ast.UnaryExpr{Op: token.NOT, X: okv}, Body: &ast.BlockStmt{List: []ast.Stmt{&ast.BranchStmt{Tok: token.BREAK}}}}
		body := append([]ast.Stmt{decl, recv, brk}, n.Body.List...)
		return &ast.ForStmt{Body: &ast.BlockStmt{List: body}}
	}
	recv := &ast.AssignStmt{Lhs: []ast.Expr{lhs, okv}, Tok: token.DEFINE, Rhs: []ast.Expr{&ast.CallExpr{Fun: r.vs("Recv2"), Args: []ast.Expr{n.X}}}}
	brk := &ast.IfStmt{Cond: &ast.UnaryExpr{Op: token.NOT, X: okv}, Body: &ast.BlockStmt{List: []ast.Stmt{&ast.BranchStmt{Tok: token.BREAK}}}}
	body := append([]ast.Stmt{recv, brk}, n.Body.List...)
	return &ast.ForStmt{Body: &ast.BlockStmt{List: body}}
}

// selectStmt => block with temporaries + switch on vsched.Select(...).Index
func (r *rewriter) selectStmt(n *ast.SelectStmt) ast.Stmt {
	var pre []ast.Stmt
	var cases []ast.Expr
	var clauses []ast.Stmt
	selv := r.tmp("sel")
	hasDefault := false
	idx := 0
	for _, cl := range n.Body.List {
		cc := cl.(*ast.CommClause)
		if cc.Comm == nil {
			hasDefault = true
			clauses = append(clauses, &ast.CaseClause{List: nil, Body: cc.Body})
			continue
		}
		var body []ast.Stmt
		switch s := cc.Comm.(type) {
		case *ast.SendStmt:
			ct, vt := r.tmp("c"), r.tmp("v")
			pre = append(pre, &ast.AssignStmt{Lhs: []ast.Expr{ct}, Tok: token.DEFINE, Rhs: []ast.Expr{s.Chan}})
			// the value must have the channel's element type: let CaseSend's type inference convert it
			_ = vt
			cases = append(cases, &ast.CallExpr{Fun: &ast.CallExpr{Fun: r.vs("CaseSendTo"), Args: []ast.Expr{ct}}, Args: []ast.Expr{s.Value}})
		case *ast.ExprStmt:
			u := ast.Unparen(s.X).(*ast.UnaryExpr)
			ct := r.tmp("c")
			pre = append(pre, &ast.AssignStmt{Lhs: []ast.Expr{ct}, Tok: token.DEFINE, Rhs: []ast.Expr{u.X}})
			cases = append(cases, &ast.CallExpr{Fun: r.vs("CaseRecv"), Args: []ast.Expr{ct}})
			body = append(body, &ast.ExprStmt{X: &ast.CallExpr{Fun: r.vs("SelDrop"), Args: []ast.Expr{selv, ct}}})
		case *ast.AssignStmt:
			u := ast.Unparen(s.Rhs[0]).(*ast.UnaryExpr)
			ct := r.tmp("c")
			pre = append(pre, &ast.AssignStmt{Lhs: []ast.Expr{ct}, Tok: token.DEFINE, Rhs: []ast.Expr{u.X}})
			cases = append(cases, &ast.CallExpr{Fun: r.vs("CaseRecv"), Args: []ast.Expr{ct}})
			fn := "SelRecv"
			if len(s.Lhs) == 2 {
				fn = "SelRecv2"
			}
			body = append(body, &ast.AssignStmt{Lhs: s.Lhs, Tok: s.Tok, Rhs: []ast.Expr{&ast.CallExpr{Fun: r.vs(fn), Args: []ast.Expr{selv, ct}}}})
			// silence "declared and not used" for `case v := <-ch:` whose body ignores v
			if s.Tok == token.DEFINE {
				for _, l := range s.Lhs {
					if id, ok := l.(*ast.Ident); ok && id.Name != "_" {
						body = append(body, &ast.AssignStmt{Lhs: []ast.Expr{ast.NewIdent("_")}, Tok: token.ASSIGN, Rhs: []ast.Expr{ast.NewIdent(id.Name)}})
					}
				}
			}
		}
		body = append(body, cc.Body...)
		clauses = append(clauses, &ast.CaseClause{List: []ast.Expr{&ast.BasicLit{Kind: token.INT, Value: strconv.Itoa(idx)}}, Body: body})
		idx++
	}
	def := "false"
	if hasDefault {
		def = "true"
	} else {
		// keeps the switch a terminating statement exactly when the select was one
		clauses = append(clauses, &ast.CaseClause{List: nil, Body: []ast.Stmt{&ast.ExprStmt{X: &ast.CallExpr{Fun: ast.NewIdent("panic"), Args: []ast.Expr{&ast.BasicLit{Kind: token.STRING, Value: strconv.Quote("vsched: impossible select index")}}}}}})
	}
	args := append([]ast.Expr{ast.NewIdent(def)}, cases...)
	sw := &ast.SwitchStmt{
		Init: &ast.AssignStmt{Lhs: []ast.Expr{selv}, Tok: token.DEFINE, Rhs: []ast.Expr{&ast.CallExpr{Fun: r.vs("Select"), Args: args}}},
		Tag:  &ast.SelectorExpr{X: selv, Sel: ast.NewIdent("Index")},
		Body: &ast.BlockStmt{List: clauses},
	}
	if len(pre) == 0 {
		return sw
	}
	return &ast.BlockStmt{List: append(pre, sw)}
}
