package main

import (
	"go/ast"
	"go/parser"
)

func parserParseExpr(s string) (ast.Expr, error) { return parser.ParseExpr(s) }
