//go:build verif

// Package vatomic mirrors the parts of sync/atomic that elvish uses; every
// operation is preceded by an always-enabled scheduling point.
package vatomic

import (
	"sync/atomic"

	"src.elv.sh/pkg/zzverif/vsched"
)

type Bool struct{ v atomic.Bool }

func (b *Bool) Load() bool       { vsched.Point("atomic.Bool.Load"); return b.v.Load() }
func (b *Bool) Store(x bool)     { vsched.Point("atomic.Bool.Store"); b.v.Store(x) }
func (b *Bool) Swap(x bool) bool { vsched.Point("atomic.Bool.Swap"); return b.v.Swap(x) }
func (b *Bool) CompareAndSwap(o, n bool) bool {
	vsched.Point("atomic.Bool.CAS")
	return b.v.CompareAndSwap(o, n)
}

type Int32 struct{ v atomic.Int32 }

func (b *Int32) Load() int32       { vsched.Point("atomic.Int32.Load"); return b.v.Load() }
func (b *Int32) Store(x int32)     { vsched.Point("atomic.Int32.Store"); b.v.Store(x) }
func (b *Int32) Add(x int32) int32 { vsched.Point("atomic.Int32.Add"); return b.v.Add(x) }

type Int64 struct{ v atomic.Int64 }

func (b *Int64) Load() int64       { vsched.Point("atomic.Int64.Load"); return b.v.Load() }
func (b *Int64) Store(x int64)     { vsched.Point("atomic.Int64.Store"); b.v.Store(x) }
func (b *Int64) Add(x int64) int64 { vsched.Point("atomic.Int64.Add"); return b.v.Add(x) }

func LoadInt32(p *int32) int32     { vsched.Point("atomic.LoadInt32"); return atomic.LoadInt32(p) }
func StoreInt32(p *int32, v int32) { vsched.Point("atomic.StoreInt32"); atomic.StoreInt32(p, v) }
func AddInt32(p *int32, d int32) int32 {
	vsched.Point("atomic.AddInt32")
	return atomic.AddInt32(p, d)
}
func CompareAndSwapInt32(p *int32, o, n int32) bool {
	vsched.Point("atomic.CASInt32")
	return atomic.CompareAndSwapInt32(p, o, n)
}
func LoadInt64(p *int64) int64     { vsched.Point("atomic.LoadInt64"); return atomic.LoadInt64(p) }
func StoreInt64(p *int64, v int64) { vsched.Point("atomic.StoreInt64"); atomic.StoreInt64(p, v) }
func AddInt64(p *int64, d int64) int64 {
	vsched.Point("atomic.AddInt64")
	return atomic.AddInt64(p, d)
}
