//go:build verif

// Package vshard distributes a schedule exploration (vsched.Explorer) over
// worker processes: the controlled scheduler admits one execution at a time
// per process, so the master runs the default schedule of every scenario,
// splits the search tree at its first level (one work item per alternative at
// every point of the default schedule that fits the bound) and feeds the items
// to long-lived single-threaded workers (the same test binary re-executed).
// The union of the disjoint subtrees is exactly the space the bound defines.
package vshard

import (
	"bufio"
	"crypto/sha1"
	"encoding/json"
	"fmt"
	"os"
	"os/exec"
	"strings"
	"sync"
	"time"

	"src.elv.sh/pkg/zzverif/vk"
	"src.elv.sh/pkg/zzverif/vsched"
)

// Scenario is one closed world explored under the scheduler.
type Scenario struct {
	Name string
	Body func()
	// Oracle returns ("","") or the stable key and message of the violated rule.
	Oracle func(r *vsched.Result) (key, msg string)
	// MultiOracle, if set, is used instead of Oracle and may report several
	// violated rules (key, message) for one execution.
	MultiOracle func(r *vsched.Result) [][2]string
	// Class returns the observation class of an execution (default: its log).
	Class func(r *vsched.Result) string
	// Bound overrides Config.Bound for this scenario when > 0 (or == -1 for 0).
	Bound int
}

type Config struct {
	Delay     bool
	Bound     int
	MaxPoints int
	Workers   int
}

type item struct {
	Scenario int   `json:"s"`
	Prefix   []int `json:"p"`
	Deadline int64 `json:"d"` // unix seconds
	Level    int   `json:"l"` // bound level: executions with exactly this many deviations are checked
}

type viol struct {
	Key     string   `json:"key"`
	Msg     string   `json:"msg"`
	Choices []int    `json:"choices"`
	Log     []string `json:"log"`
}

type result struct {
	Scenario   int              `json:"s"`
	Executions int64            `json:"n"`
	Classes    map[string]int64 `json:"c"`
	Viols      []viol           `json:"v"`
	MaxPts     int              `json:"mp"`
	MaxG       int              `json:"mg"`
	Deadlocks  int64            `json:"dl"`
	Horizons   int64            `json:"hz"`
	Capped     bool             `json:"cap"`
	Diverged   string           `json:"div"`
	Nondet     string           `json:"nd"`
	Sample     []string         `json:"sample"`
	Steps      int64            `json:"st"`
}

// IsWorker reports whether this process is a vshard worker.
func IsWorker() bool { return os.Getenv("VERIF_SHARD_WORKER") == "1" }

func boundOf(sc Scenario, cfg Config) int {
	if sc.Bound > 0 {
		return sc.Bound
	}
	if sc.Bound == -1 {
		return 0
	}
	return cfg.Bound
}

func classOf(sc Scenario, r *vsched.Result) string {
	var s string
	if sc.Class != nil {
		s = sc.Class(r)
	} else {
		s = strings.Join(r.Log, "|")
	}
	if r.Deadlock {
		s += "#deadlock"
	}
	// how often the running goroutine had to block (forced switches): distinguishes
	// executions that exercised different blocking behaviour behind the same observation
	blocks := 0
	for _, p := range r.Points {
		if p.G >= 0 && p.CurEn == 0 {
			blocks++
		}
	}
	s += fmt.Sprintf("#blocked=%d#points=%d", blocks, len(r.Points))
	h := sha1.Sum([]byte(s))
	return fmt.Sprintf("%x", h[:8])
}

func exploreItem(scs []Scenario, cfg Config, it item) result {
	sc := scs[it.Scenario]
	res := result{Scenario: it.Scenario, Classes: map[string]int64{}}
	deadline := time.Unix(it.Deadline, 0)
	seen := map[string]bool{}
	x := &vsched.Explorer{Delay: cfg.Delay, Bound: it.Level, ExactOnly: true, MaxPoints: cfg.MaxPoints, Body: sc.Body,
		Stop: func() bool { return time.Now().After(deadline) }}
	x.Check = func(r *vsched.Result) {
		res.Steps += int64(len(r.Points))
		res.Classes[classOf(sc, r)]++
		if res.Sample == nil {
			res.Sample = r.Log
		}
		for _, v := range verdicts(sc, cfg, r) {
			key, msg := v[0], v[1]
			if key == "" || seen[key] {
				continue
			}
			seen[key] = true
			if !confirm(sc, cfg, r.Choices, key) {
				res.Nondet = fmt.Sprintf("scenario %s schedule %v (%s) does not replay deterministically; first observation: %s", sc.Name, r.Choices, key, msg)
				return
			}
			res.Viols = append(res.Viols, viol{key, msg, r.Choices, r.Log})
		}
	}
	x.Explore(it.Prefix)
	res.Executions, res.MaxPts, res.MaxG = x.Executions, x.MaxPts, x.MaxG
	res.Deadlocks, res.Horizons, res.Capped, res.Diverged = x.Deadlocks, x.Horizons, x.Capped, x.Diverged
	return res
}

// verdicts returns every (key, message) the scenario's oracle reports for r.
func verdicts(sc Scenario, cfg Config, r *vsched.Result) [][2]string {
	if r.Horizon {
		return [][2]string{{"step-horizon-exceeded", fmt.Sprintf("execution exceeded %d scheduling points (livelock candidate)", cfg.MaxPoints)}}
	}
	if sc.MultiOracle != nil {
		return sc.MultiOracle(r)
	}
	if sc.Oracle != nil {
		if k, m := sc.Oracle(r); k != "" {
			return [][2]string{{k, m}}
		}
	}
	return nil
}

// confirm re-executes a violating schedule 5 times from its recorded choices;
// the violation is believed only if every replay follows the same choices and
// violates the same rule (same key).
func confirm(sc Scenario, cfg Config, choices []int, key string) bool {
	for i := 0; i < 5; i++ {
		r := vsched.Run(choices, cfg.MaxPoints, sc.Body)
		// A replay confirms when no recorded choice was out of range and the same rule is violated again. The
		// number of scheduling points may differ: code under test that corrupts process-global state (closing
		// the shared blackhole channel, say) makes later executions of the same process end earlier, and that
		// is a reproducible defect of the code, not harness nondeterminism.
		if r.Diverged != "" {
			return false
		}
		found := false
		for _, v := range verdicts(sc, cfg, r) {
			if v[0] == key {
				found = true
			}
		}
		if !found {
			return false
		}
	}
	return true
}

// Serve is the worker loop: one JSON item per line on stdin, one JSON result per line on stdout.
func Serve(scs []Scenario, cfg Config) {
	in := bufio.NewReaderSize(os.Stdin, 1<<20)
	out := bufio.NewWriter(os.Stdout)
	for {
		line, err := in.ReadString('\n')
		if strings.TrimSpace(line) != "" {
			var it item
			if e := json.Unmarshal([]byte(line), &it); e != nil {
				fmt.Fprintf(out, "{\"div\":\"bad item: %v\"}\n", e)
			} else {
				res := exploreItem(scs, cfg, it)
				data, _ := json.Marshal(res)
				out.WriteString("RESULT " + string(data) + "\n")
			}
			out.Flush()
		}
		if err != nil {
			return
		}
	}
}

// Run is the master: explores every scenario within the bound and accounts the
// results on c. It reports violations through c.Violate.
func Run(c *vk.Ctx, scs []Scenario, cfg Config) {
	if name := os.Getenv("VERIF_REPLAY_SCEN"); name != "" {
		// debugging aid: VERIF_REPLAY_SCEN=<scenario> VERIF_REPLAY_CHOICES="0 0 3 ..." replays one schedule 3 times
		var choices []int
		for _, f := range strings.Fields(os.Getenv("VERIF_REPLAY_CHOICES")) {
			var n int
			fmt.Sscan(f, &n)
			choices = append(choices, n)
		}
		for _, sc := range scs {
			if sc.Name != name {
				continue
			}
			for i := 0; i < 3; i++ {
				r := vsched.Run(choices, cfg.MaxPoints, sc.Body)
				var ks2 []string
				for _, v := range verdicts(sc, cfg, r) {
					ks2 = append(ks2, v[0])
				}
				fmt.Printf("INFO replay %d: points=%d deadlock=%v diverged=%q races=%v violated=%v\n", i, len(r.Points), r.Deadlock, r.Diverged, r.Races, ks2)
				for _, l := range r.Log {
					fmt.Printf("INFO    %s\n", l)
				}
				var ks []string
				for _, p := range r.Points {
					ks = append(ks, fmt.Sprintf("g%d:%s", p.ChosenG, p.Kind))
				}
				fmt.Printf("INFO    trace %s\n", strings.Join(ks, " "))
			}
		}
		c.Case("replay")
		c.Case("replay2")
		return
	}
	if cfg.Workers == 0 {
		cfg.Workers = 16
	}
	if cfg.MaxPoints == 0 {
		cfg.MaxPoints = 5000
	}
	deadline := time.Now().Add(time.Duration(vk.Pick(c, 200, 1300)) * time.Second)
	if s := os.Getenv("VERIF_BUDGET_S"); s != "" {
		var n int
		fmt.Sscan(s, &n)
		if n > 0 {
			deadline = time.Now().Add(time.Duration(n) * time.Second)
		}
	}
	type agg struct {
		execs, deadlocks, horizons int64
		steps                      int64
		classes                    map[string]int64
		maxPts, maxG               int
		sample                     []string
		items                      int
	}
	aggs := make([]*agg, len(scs))
	roots := make([]rootOut, len(scs))
	// Root executions (in-process) and first-level split.
	for si, sc := range scs {
		aggs[si] = &agg{classes: map[string]int64{}}
		root := exploreItemRootOnly(scs, cfg, si)
		merge := root.res
		a := aggs[si]
		a.execs += merge.Executions
		a.steps += merge.Steps
		for k, n := range merge.Classes {
			a.classes[k] += n
		}
		a.maxPts, a.maxG, a.sample = merge.MaxPts, merge.MaxG, merge.Sample
		a.deadlocks += merge.Deadlocks
		a.horizons += merge.Horizons
		reportViols(c, sc, merge)
		if merge.Diverged != "" || merge.Nondet != "" {
			harnessError(c, merge.Diverged+merge.Nondet)
		}
		a.items = len(root.children)
		roots[si] = root
	}
	// Long-lived single-threaded workers.
	self := os.Getenv("VERIF_SELF")
	if self == "" {
		self, _ = os.Executable()
	}
	type worker struct {
		cmd   *exec.Cmd
		stdin interface {
			Write([]byte) (int, error)
			Close() error
		}
		rd *bufio.Reader
	}
	var workers []*worker
	for w := 0; w < cfg.Workers; w++ {
		cmd := exec.Command(self, os.Args[1:]...)
		cmd.Env = append(os.Environ(), "VERIF_SHARD_WORKER=1", "GOMAXPROCS=1")
		stdin, _ := cmd.StdinPipe()
		stdout, _ := cmd.StdoutPipe()
		cmd.Stderr = os.Stderr
		if err := cmd.Start(); err != nil {
			harnessError(c, "cannot start worker: "+err.Error())
		}
		workers = append(workers, &worker{cmd, stdin, bufio.NewReaderSize(stdout, 1<<20)})
	}
	var mu sync.Mutex
	var herr string
	// runLevel hands the items of one bound level to the workers and merges the results.
	runLevel := func(items []item) {
		next := 0
		var wg sync.WaitGroup
		for _, w := range workers {
			w := w
			wg.Add(1)
			go func() {
				defer wg.Done()
				for {
					mu.Lock()
					if next >= len(items) || herr != "" {
						mu.Unlock()
						return
					}
					it := items[next]
					next++
					mu.Unlock()
					data, _ := json.Marshal(it)
					if _, err := w.stdin.Write(append(data, '\n')); err != nil {
						mu.Lock()
						herr = "worker died: " + err.Error()
						mu.Unlock()
						return
					}
					var res result
					got := false
					for {
						line, err := w.rd.ReadString('\n')
						if strings.HasPrefix(line, "RESULT ") {
							if e := json.Unmarshal([]byte(line[7:]), &res); e == nil {
								got = true
							}
							break
						}
						if err != nil {
							break
						}
					}
					if !got {
						mu.Lock()
						herr = fmt.Sprintf("worker gave no result for scenario %s prefix %v (crashed?)", scs[it.Scenario].Name, it.Prefix)
						mu.Unlock()
						return
					}
					mu.Lock()
					a := aggs[res.Scenario]
					a.execs += res.Executions
					a.steps += res.Steps
					for k, n := range res.Classes {
						a.classes[k] += n
					}
					if res.MaxPts > a.maxPts {
						a.maxPts = res.MaxPts
					}
					if res.MaxG > a.maxG {
						a.maxG = res.MaxG
					}
					a.deadlocks += res.Deadlocks
					a.horizons += res.Horizons
					if res.Capped {
						c.Capped(fmt.Sprintf("time budget reached at bound level %d in scenario %s", it.Level, scs[res.Scenario].Name))
					}
					if res.Diverged != "" || res.Nondet != "" {
						herr = res.Diverged + res.Nondet
					}
					mu.Unlock()
					reportViols(c, scs[res.Scenario], res)
				}
			}()
		}
		wg.Wait()
	}
	// Iterative bounding: level b (the executions with exactly b deviations) is completed for
	// every scenario before level b+1 starts, so a run that hits its time budget has still
	// covered every lower level completely.
	maxLevel := 0
	for _, sc := range scs {
		if b := boundOf(sc, cfg); b > maxLevel {
			maxLevel = b
		}
	}
	completed := 0
	for lvl := 1; lvl <= maxLevel && herr == "" && !c.IsCapped(); lvl++ {
		var items []item
		for si, sc := range scs {
			if lvl > boundOf(sc, cfg) {
				continue
			}
			for _, p := range roots[si].children {
				items = append(items, item{Scenario: si, Prefix: p, Deadline: deadline.Unix(), Level: lvl})
			}
		}
		runLevel(items)
		if !c.IsCapped() && herr == "" {
			completed = lvl
		}
	}
	for _, w := range workers {
		w.stdin.Close()
		w.cmd.Wait()
	}
	if herr != "" {
		harnessError(c, herr)
	}
	c.Set("bound_levels_completed", completed)
	var total, steps, nclasses int64
	maxPts, maxG := 0, 0
	per := map[string]any{}
	for si, sc := range scs {
		a := aggs[si]
		total += a.execs
		steps += a.steps
		nclasses += int64(len(a.classes))
		if a.maxPts > maxPts {
			maxPts = a.maxPts
		}
		if a.maxG > maxG {
			maxG = a.maxG
		}
		l := vk.NewLocal()
		l.Evals = a.execs
		for k, n := range a.classes {
			l.Classes[sc.Name+":"+k] = n
		}
		c.Merge(l)
		per[sc.Name] = map[string]any{"schedules": a.execs, "distinct_observations": len(a.classes), "max_points": a.maxPts,
			"goroutines": a.maxG, "deadlocks": a.deadlocks, "bound": boundOf(sc, cfg), "subtrees": a.items}
		c.Sample(map[string]any{"scenario": sc.Name, "default_schedule_log": a.sample})
	}
	mode := "preemption"
	if cfg.Delay {
		mode = "delay"
	}
	c.Set("bounding", mode)
	c.Set("bound_requested", cfg.Bound)
	c.Set("schedules", total)
	// model-checking style counts: every explored schedule is a trace of the real
	// implementation; transitions = scheduling decisions executed, states = distinct
	// end-to-end observations (executions are not merged on intermediate states)
	c.Set("transitions", steps)
	c.Set("states", nclasses)
	c.Set("traces_validated_against_impl", total)
	c.Set("points_max", maxPts)
	c.Set("goroutines_max", maxG)
	c.Set("scenarios", per)
}

func harnessError(c *vk.Ctx, msg string) {
	fmt.Printf("HARNESS-ERROR property=%s %s\n", c.ID, msg)
	os.Exit(3)
}

func reportViols(c *vk.Ctx, sc Scenario, res result) {
	for _, v := range res.Viols {
		c.Violate(v.Key, fmt.Sprintf("scenario %s schedule %v: %s; log %v", sc.Name, v.Choices, v.Msg, v.Log),
			map[string]any{"scenario": sc.Name, "choices": v.Choices, "log": v.Log})
	}
}

type rootOut struct {
	res      result
	children [][]int
}

// exploreItemRootOnly runs the default schedule of a scenario, checks it, and
// returns the first-level alternatives (disjoint subtrees) that fit the bound.
func exploreItemRootOnly(scs []Scenario, cfg Config, si int) rootOut {
	sc := scs[si]
	res := result{Scenario: si, Classes: map[string]int64{}}
	r := vsched.Run(nil, cfg.MaxPoints, sc.Body)
	res.Executions = 1
	res.Steps = int64(len(r.Points))
	res.MaxPts, res.MaxG = len(r.Points), r.NG
	res.Sample = r.Log
	res.Classes[classOf(sc, r)]++
	if r.Deadlock {
		res.Deadlocks++
	}
	if r.Diverged != "" {
		res.Diverged = r.Diverged
	}
	if r.Horizon {
		res.Horizons++
	}
	for _, v := range verdicts(sc, cfg, r) {
		key, msg := v[0], v[1]
		if !confirm(sc, cfg, r.Choices, key) {
			res.Nondet = fmt.Sprintf("scenario %s default schedule does not replay deterministically (%s)", sc.Name, key)
		} else {
			res.Viols = append(res.Viols, viol{key, msg, r.Choices, r.Log})
		}
	}
	x := &vsched.Explorer{Delay: cfg.Delay, Bound: boundOf(sc, cfg)}
	var children [][]int
	used := 0
	for i, p := range r.Points {
		for alt := 0; alt < p.NEn; alt++ {
			if alt == p.Chosen || used+x.Cost(p, alt) > x.Bound {
				continue
			}
			np := make([]int, i+1)
			copy(np, r.Choices[:i])
			np[i] = alt
			children = append(children, np)
		}
		used += x.Cost(p, p.Chosen)
	}
	return rootOut{res, children}
}
