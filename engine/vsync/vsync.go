//go:build verif

// Package vsync mirrors the parts of package sync that elvish uses, routing
// blocking operations through the controlled scheduler when the caller is a
// controlled goroutine and to the real primitives otherwise.
package vsync

import (
	"sync"

	"src.elv.sh/pkg/zzverif/vsched"
)

type (
	Map    = sync.Map
	Pool   = sync.Pool
	Locker = sync.Locker
)

type Mutex struct {
	real sync.Mutex
	st   vsched.MutexState
}

func (m *Mutex) Lock() {
	vsched.AcquireW(&m.st)
	m.real.Lock()
}

func (m *Mutex) Unlock() {
	m.st.W = false
	m.real.Unlock()
}

func (m *Mutex) TryLock() bool {
	if m.real.TryLock() {
		m.st.W = true
		return true
	}
	return false
}

type RWMutex struct {
	real sync.RWMutex
	st   vsched.MutexState
}

func (m *RWMutex) Lock() {
	vsched.AcquireW(&m.st)
	m.real.Lock()
}

func (m *RWMutex) Unlock() {
	m.st.W = false
	m.real.Unlock()
}

func (m *RWMutex) RLock() {
	if !vsched.AcquireR(&m.st) {
		m.real.RLock()
		return
	}
	m.real.RLock()
}

func (m *RWMutex) RUnlock() {
	if vsched.Controlled() && m.st.R > 0 {
		m.st.R--
	}
	m.real.RUnlock()
}

func (m *RWMutex) RLocker() sync.Locker { return (*rlocker)(m) }

type rlocker RWMutex

func (r *rlocker) Lock()   { (*RWMutex)(r).RLock() }
func (r *rlocker) Unlock() { (*RWMutex)(r).RUnlock() }

type WaitGroup struct {
	real sync.WaitGroup
	st   vsched.WGState
	mu   sync.Mutex
}

func (w *WaitGroup) Add(n int) {
	w.mu.Lock()
	w.st.N += n
	w.mu.Unlock()
	w.real.Add(n)
}

func (w *WaitGroup) Done() { w.Add(-1) }

func (w *WaitGroup) Wait() {
	vsched.WGWait(&w.st)
	w.real.Wait()
}

type Once struct {
	real sync.Once
	st   vsched.OnceState
}

func (o *Once) Do(f func()) {
	if !vsched.OnceEnter(&o.st) {
		o.real.Do(f)
		return
	}
	if o.st.Done {
		return
	}
	o.st.Running = true
	defer func() { o.st.Done = true; o.st.Running = false }()
	o.real.Do(f)
}

func OnceFunc(f func()) func()             { return sync.OnceFunc(f) }
func OnceValue[T any](f func() T) func() T { return sync.OnceValue(f) }
