//go:build verif

package vsched

import (
	"errors"
	"io"
	"net"
	"time"
)

// DialHook, when set, replaces net.Dial in rewritten packages (the rewriter
// maps configured net.Dial call sites to vsched.Dial).
var DialHook func(network, addr string) (net.Conn, error)

func Dial(network, addr string) (net.Conn, error) {
	if DialHook != nil {
		return DialHook(network, addr)
	}
	return net.Dial(network, addr)
}

// Pipe returns the two ends of an in-memory, scheduler-aware duplex
// connection: writes never block, reads park the goroutine (as a scheduling
// point) until data or EOF is available.
func Pipe() (net.Conn, net.Conn) {
	a, b := &pipeBuf{}, &pipeBuf{}
	return &pipeConn{rd: a, wr: b}, &pipeConn{rd: b, wr: a}
}

type pipeBuf struct {
	data   []byte
	closed bool
}

type pipeConn struct {
	rd, wr *pipeBuf
	closed bool
}

func (c *pipeConn) Read(p []byte) (int, error) {
	WaitUntil("conn-read", func() bool { return len(c.rd.data) > 0 || c.rd.closed || c.closed })
	if c.closed {
		return 0, errors.New("read on closed connection")
	}
	if len(c.rd.data) == 0 {
		return 0, io.EOF
	}
	n := copy(p, c.rd.data)
	c.rd.data = c.rd.data[n:]
	return n, nil
}

func (c *pipeConn) Write(p []byte) (int, error) {
	if c.closed || c.wr.closed {
		return 0, errors.New("write on closed connection")
	}
	c.wr.data = append(c.wr.data, p...)
	return len(p), nil
}

func (c *pipeConn) Close() error {
	c.closed = true
	c.wr.closed = true // peer sees EOF after draining
	c.rd.closed = true
	return nil
}

type pipeAddr struct{}

func (pipeAddr) Network() string { return "vsched" }
func (pipeAddr) String() string  { return "vsched-pipe" }

func (c *pipeConn) LocalAddr() net.Addr                { return pipeAddr{} }
func (c *pipeConn) RemoteAddr() net.Addr               { return pipeAddr{} }
func (c *pipeConn) SetDeadline(t time.Time) error      { return nil }
func (c *pipeConn) SetReadDeadline(t time.Time) error  { return nil }
func (c *pipeConn) SetWriteDeadline(t time.Time) error { return nil }
