//go:build verif

package vsched

import (
	"fmt"
	"time"
)

// Explorer enumerates, by stateless depth-first search, every schedule of Body
// with at most Bound preemptions (iterative context bounding: a preemption is
// choosing another goroutine's operation while the running goroutine still has
// an enabled one; alternatives of the running goroutine itself, i.e. several
// ready select cases, cost nothing).
type Explorer struct {
	// Delay selects delay bounding: every departure from the default goroutine
	// (the running one while it is enabled, else the lowest id) costs 1, whether
	// or not the running goroutine was still enabled. The default (false) is
	// preemption bounding, where switches at blocking points are free.
	Delay bool
	// ExactOnly makes the explorer check (and count) only executions that use
	// exactly Bound deviations; those with fewer are still run, because their
	// extensions branch off them, but they were checked at a lower bound level
	// (iterative bounding: level b is completed before level b+1 starts).
	ExactOnly bool
	Bound     int
	MaxPoints int
	Body      func()
	// Check is called after every complete execution.
	Check func(r *Result)
	// Stop, if set, is polled between executions; returning true ends the search (capped).
	Stop func() bool

	Executions int64
	MaxPts     int
	MaxG       int
	Deadlocks  int64
	Horizons   int64
	Capped     bool
	Diverged   string
}

func (x *Explorer) Cost(p PointRec, alt int) int {
	if x.Delay {
		if alt >= p.Free {
			return 1
		}
		return 0
	}
	if p.CurEn > 0 && alt >= p.CurEn {
		return 1
	}
	return 0
}

// Explore runs the search from the given root prefix (nil for the whole space).
func (x *Explorer) Explore(root []int) {
	x.explore(root, len(root))
}

func (x *Explorer) explore(prefix []int, from int) {
	if x.Capped || x.Diverged != "" {
		return
	}
	if x.Stop != nil && x.Stop() {
		x.Capped = true
		return
	}
	r := Run(prefix, x.MaxPoints, x.Body)
	if r.Diverged != "" {
		x.Diverged = fmt.Sprintf("%s (prefix %v)", r.Diverged, prefix)
		return
	}
	total := 0
	for _, p := range r.Points {
		total += x.Cost(p, p.Chosen)
	}
	counted := !x.ExactOnly || total == x.Bound
	if counted {
		x.Executions++
	}
	if len(r.Points) > x.MaxPts {
		x.MaxPts = len(r.Points)
	}
	if r.NG > x.MaxG {
		x.MaxG = r.NG
	}
	if r.Deadlock {
		x.Deadlocks++
	}
	if r.Horizon {
		x.Horizons++
	}
	if x.Check != nil && counted {
		x.Check(r)
	}
	// preemptions used before each point
	used := 0
	for i := 0; i < len(r.Points); i++ {
		p := r.Points[i]
		if i >= from {
			for alt := 0; alt < p.NEn; alt++ {
				if alt == p.Chosen {
					continue
				}
				if used+x.Cost(p, alt) > x.Bound {
					continue
				}
				np := make([]int, i+1)
				copy(np, r.Choices[:i])
				np[i] = alt
				x.explore(np, i+1)
			}
		}
		used += x.Cost(p, p.Chosen)
	}
}

// After is time.After under the scheduler: a timer that may fire at any moment
// (its channel is ready at once), so "timer first" and "other event first" are
// both explored wherever it is used in a select.
func After(d time.Duration) <-chan time.Time {
	if !Controlled() {
		return time.After(d)
	}
	ch := make(chan time.Time, 1)
	ch <- time.Time{}
	return ch
}

// Replay runs one schedule n times and reports whether all runs produced the
// same point records and logs (determinism check before a violation is believed).
func Replay(choices []int, maxPoints int, body func(), n int) (same bool, first *Result) {
	same = true
	for i := 0; i < n; i++ {
		r := Run(choices, maxPoints, body)
		if first == nil {
			first = r
			continue
		}
		if fmt.Sprint(r.Choices) != fmt.Sprint(first.Choices) || fmt.Sprint(r.Log) != fmt.Sprint(first.Log) || r.Deadlock != first.Deadlock {
			same = false
		}
	}
	return
}
