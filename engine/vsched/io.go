//go:build verif

package vsched

import (
	"io"
	"os"
	"reflect"
	"sync"

	"golang.org/x/sys/unix"
)

// FileReader gates reads from f by the scheduler: inside a run, each Read first
// parks the goroutine until poll(2) reports the descriptor readable (data, EOF
// or hang-up), so a read never blocks while holding the scheduler's token.
func FileReader(f *os.File) io.Reader { return &fileReader{f} }

type fileReader struct{ f *os.File }

func (r *fileReader) Read(p []byte) (int, error) {
	if r.f != nil {
		if e, g := me(); e != nil {
			rc, err := r.f.SyscallConn()
			if err == nil {
				e.point(g, &op{kind: opCustom, label: "file-read", pred: func() bool {
					ready := true
					rc.Control(func(fd uintptr) {
						for {
							fds := []unix.PollFd{{Fd: int32(fd), Events: unix.POLLIN}}
							n, err := unix.Poll(fds, 0)
							if err == unix.EINTR {
								continue // interrupted by a signal (Go's own preemption signals): ask again
							}
							if err == nil && n == 0 {
								ready = false
							}
							return
						}
					})
					return ready
				}})
			}
		}
	}
	return r.f.Read(p)
}

var externals sync.Map

// External declares a channel whose other side is served by an uncontrolled
// goroutine that never blocks for long (e.g. a drain goroutine started at
// package initialisation): operations on it are always enabled and performed
// with the real blocking primitive.
func External(ch any) { externals.Store(reflect.ValueOf(ch).Pointer(), true) }

func isExternal(key uintptr) bool {
	_, ok := externals.Load(key)
	return ok
}

// FileWriter wraps f so that writes become scheduling points that are enabled
// only when the descriptor is writable (poll(2) POLLOUT). A write is split into
// chunks of at most 4096 bytes (PIPE_BUF: a pipe that polls writable accepts
// that much without blocking), so a writer facing a full pipe yields to the
// other goroutines instead of parking its OS thread in the kernel, which the
// cooperative scheduler could not see. Writes larger than PIPE_BUF are not
// atomic on a pipe anyway.
func FileWriter(f *os.File) *fileWriter { return &fileWriter{f} }

type fileWriter struct{ f *os.File }

const writeChunk = 4096

func (w *fileWriter) Write(p []byte) (int, error) {
	e, g := me()
	if w.f == nil || e == nil {
		return w.f.Write(p)
	}
	rc, err := w.f.SyscallConn()
	if err != nil {
		return w.f.Write(p)
	}
	total := 0
	for {
		chunk := p
		if len(chunk) > writeChunk {
			chunk = chunk[:writeChunk]
		}
		e.point(g, &op{kind: opCustom, label: "file-write", pred: func() bool {
			ready := true
			rc.Control(func(fd uintptr) {
				for {
					fds := []unix.PollFd{{Fd: int32(fd), Events: unix.POLLOUT}}
					n, err := unix.Poll(fds, 0)
					if err == unix.EINTR {
						continue
					}
					if err == nil && n == 0 {
						ready = false
					}
					return
				}
			})
			return ready
		}})
		n, err := w.f.Write(chunk)
		total += n
		if err != nil || n < len(chunk) {
			return total, err
		}
		p = p[len(chunk):]
		if len(p) == 0 {
			return total, nil
		}
	}
}

func (w *fileWriter) WriteString(s string) (int, error) { return w.Write([]byte(s)) }
