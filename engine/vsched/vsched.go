//go:build verif

// Package vsched is a cooperative, controlled scheduler for real Go code whose
// synchronisation operations have been redirected to it (by the rewriter in
// /verif/engine/rewrite and the vsync/vatomic shims). Exactly one controlled
// goroutine runs at a time; every potentially blocking or racing operation is
// a *point* at which the goroutine publishes its pending operation and the
// scheduler picks, from the enabled pending operations, which one proceeds.
// The sequence of picks (choice indices into the canonically ordered enabled
// set) identifies an execution and can be replayed.
//
// Outside a run (no current execution, or the calling goroutine is not a
// controlled one) every operation falls through to the real primitive.
package vsched

import (
	"bytes"
	"fmt"
	"reflect"
	"runtime"
	"runtime/debug"
	"strconv"
	"strings"
	"sync"
	"sync/atomic"
)

// ---------------------------------------------------------------------------
// Execution state

type opKind int

const (
	opStart opKind = iota
	opLock
	opRLock
	opWait
	opSend
	opRecv
	opSelect
	opYield  // always enabled (atomics, explicit points)
	opOnce   // sync.Once.Do
	opCustom // enabled by a predicate
	opSleep  // enabled after other goroutines have taken wakeAfter more decisions, or when nothing else can run
)

var kindNames = [...]string{"start", "lock", "rlock", "wgwait", "send", "recv", "select", "yield", "once", "custom", "sleep"}

type selCase struct {
	send bool
	ch   reflect.Value // the channel (may be zero Value for nil channel)
	key  uintptr
	val  reflect.Value // value to send
	name string        // for virtual timers etc.
	pred func() bool   // custom enabledness (virtual cases)
}

type op struct {
	kind   opKind
	obj    any    // *MutexState, *WGState, ...
	label  string // for yield points
	cases  []selCase
	hasDef bool
	pred   func() bool
	wakeAt int // opSleep: number of scheduling decisions after which the sleeper may run
	// filled in by the scheduler / partner:
	completed bool // rendezvous already performed by the partner
	chosen    int  // select: chosen case (-1 default)
	recvVal   reflect.Value
	recvOK    bool
}

// G is a controlled goroutine.
type G struct {
	id      int
	goid    int64
	wake    chan struct{}
	pending *op
	done    bool
	name    string
	tag     string
	sleeps  int
	low     bool // low priority: ordered after every ordinary goroutine (GoLow)
}

// PointRec records one scheduling decision.
type PointRec struct {
	G       int    // goroutine that was running when the decision was taken (-1 none)
	NEn     int    // number of enabled alternatives
	CurEn   int    // how many leading alternatives belong to the running goroutine (cost 0)
	Free    int    // how many leading alternatives belong to the default goroutine (the running one if enabled, else the lowest id)
	Chosen  int    // index chosen
	ChosenG int    // goroutine chosen
	Kind    string // op kind chosen
}

// Exec is one controlled execution.
type Exec struct {
	mu       sync.Mutex
	gs       []*G
	byGoid   sync.Map // goid -> *G
	cur      *G
	prefix   []int
	Points   []PointRec
	aborted  bool
	Deadlock bool
	Horizon  bool
	Diverged string
	MaxPts   int
	chans    map[uintptr]*chanInfo
	finished chan struct{}
	live     int
	Log      []string // harness observations (only touched by the running goroutine)
	Blocked  []string // description of parked goroutines at deadlock
	Panics   int
	Races    []string // conflicting access windows (see access.go)
	windows  []window
	Stacks   []string // full stacks of panics (not deterministic: goroutine numbers, addresses)
	// fault injection hook: called at every point before alternatives are computed.
	userData any
}

type chanInfo struct {
	closed bool
	id     int
	ref    any
}

var current atomic.Pointer[Exec]

// Cur returns the current execution or nil.
func Cur() *Exec { return current.Load() }

func goid() int64 {
	var buf [40]byte
	n := runtime.Stack(buf[:], false)
	// "goroutine 123 ["
	b := buf[10:n]
	i := bytes.IndexByte(b, ' ')
	if i < 0 {
		return -1
	}
	id, _ := strconv.ParseInt(string(b[:i]), 10, 64)
	return id
}

// me returns the execution and controlled goroutine of the caller, or nil,nil
// if the caller is not controlled (then real primitives must be used).
func me() (*Exec, *G) {
	e := current.Load()
	if e == nil {
		return nil, nil
	}
	if g, ok := e.byGoid.Load(goid()); ok {
		return e, g.(*G)
	}
	return nil, nil
}

// Controlled reports whether the caller is a controlled goroutine of a run.
func Controlled() bool {
	e := current.Load()
	if e == nil {
		return false
	}
	_, ok := e.byGoid.Load(goid())
	return ok
}

// Logf appends an observation to the execution log (controlled goroutines only).
func Logf(format string, a ...any) {
	if e := current.Load(); e != nil {
		e.mu.Lock()
		e.Log = append(e.Log, fmt.Sprintf(format, a...))
		e.mu.Unlock()
	}
}

// Result is what Run returns.
type Result struct {
	Points   []PointRec
	Choices  []int
	Deadlock bool
	Horizon  bool
	Diverged string
	Log      []string
	Blocked  []string
	NG       int
	Panics   int
	Stacks   []string
	Races    []string
}

// Run executes body as controlled goroutine 0 under the schedule given by
// prefix (then default choices), and returns when every controlled goroutine
// has finished, or the execution deadlocked / exceeded maxPoints.
// runCount counts executions of this process (for the periodic collection below).
var runCount int

func Run(prefix []int, maxPoints int, body func()) *Result {
	// The garbage collector is switched off for the duration of an execution: an *os.File that the code under
	// test has leaked would otherwise be closed by its finalizer at a moment the scheduler does not control (a
	// reader blocked on the leaked pipe then sees EOF in one replay and blocks forever in the next). Garbage is
	// collected between executions, where finalizers can only close descriptors of executions that are over.
	oldGC := debug.SetGCPercent(-1)
	defer func() {
		debug.SetGCPercent(oldGC)
		runCount++
		if runCount%32 == 0 {
			runtime.GC()
		}
	}()
	e := &Exec{prefix: prefix, MaxPts: maxPoints, chans: map[uintptr]*chanInfo{}, finished: make(chan struct{})}
	if !current.CompareAndSwap(nil, e) {
		panic("vsched: nested or concurrent Run")
	}
	g0 := e.spawn("main", body)
	e.cur = g0
	g0.wake <- struct{}{}
	<-e.finished
	current.Store(nil)
	r := &Result{Points: e.Points, Deadlock: e.Deadlock, Horizon: e.Horizon, Diverged: e.Diverged, Log: e.Log, Blocked: e.Blocked, NG: len(e.gs), Panics: e.Panics, Stacks: e.Stacks, Races: e.Races}
	for _, p := range e.Points {
		r.Choices = append(r.Choices, p.Chosen)
	}
	return r
}

func (e *Exec) newG(name string) *G {
	g := &G{id: len(e.gs), wake: make(chan struct{}, 1), name: name, pending: &op{kind: opStart}}
	e.gs = append(e.gs, g)
	return g
}

// spawn creates a controlled goroutine running body; it starts parked.
func (e *Exec) spawn(name string, body func()) *G {
	e.mu.Lock()
	g := e.newG(name)
	e.live++
	e.mu.Unlock()
	started := make(chan struct{})
	go func() {
		g.goid = goid()
		e.byGoid.Store(g.goid, g)
		close(started)
		<-g.wake
		defer e.exit(g)
		if e.aborted {
			return
		}
		body()
	}()
	<-started
	return g
}

// exit runs when a controlled goroutine ends (normal return, panic, Goexit).
func (e *Exec) exit(g *G) {
	r := recover()
	e.mu.Lock()
	g.done = true
	g.pending = nil
	e.live--
	if r != nil {
		buf := make([]byte, 8192)
		buf = buf[:runtime.Stack(buf, false)]
		e.Log = append(e.Log, fmt.Sprintf("PANIC in g%d: %v @ %s", g.id, r, panicSite(string(buf))))
		e.Stacks = append(e.Stacks, string(buf))
		e.Panics++
	}
	e.byGoid.Delete(g.goid)
	if e.live == 0 {
		e.mu.Unlock()
		close(e.finished)
		return
	}
	var next *G
	if e.aborted {
		// Tear down one goroutine at a time so that unwinding code never runs concurrently.
		for _, h := range e.gs {
			if !h.done {
				next = h
				break
			}
		}
	} else {
		e.cur = nil
		next = e.pickLocked(nil)
		if next == nil && e.aborted {
			for _, h := range e.gs {
				if !h.done {
					next = h
					break
				}
			}
		}
	}
	e.mu.Unlock()
	if next != nil {
		next.wake <- struct{}{}
	}
}

// panicSite extracts the frames of the panicking code (file:line, innermost
// first, at most 3) from a stack dump, skipping the runtime and the scheduler.
func panicSite(st string) string {
	var out []string
	lines := strings.Split(st, "\n")
	seenPanic := false
	for _, l := range lines {
		l = strings.TrimSpace(l)
		if strings.HasPrefix(l, "panic(") {
			seenPanic = true
			continue
		}
		if !seenPanic || !strings.HasPrefix(l, "/") {
			continue
		}
		f := strings.Fields(l)[0]
		if strings.Contains(f, "/runtime/") || strings.Contains(f, "zzverif/vsched/") {
			continue
		}
		if i := strings.LastIndex(f, "/pkg/"); i >= 0 {
			f = f[i+5:]
		}
		out = append(out, f)
		if len(out) == 3 {
			break
		}
	}
	return strings.Join(out, " < ")
}

// Go starts f as a new controlled goroutine (or a plain goroutine outside a run).
func Go(f func()) {
	e, parent := me()
	if e == nil {
		go f()
		return
	}
	g := e.spawn("", f)
	g.tag = parent.tag
}

// GoLow starts f as a controlled goroutine of low priority: in the canonical order of alternatives it comes after
// every ordinary goroutine, so the default schedule runs it only when nothing else can run, and running its next
// step at any other point is one departure from the default. Meant for fault and interrupt actors.
func GoLow(f func()) {
	e, parent := me()
	if e == nil {
		go f()
		return
	}
	g := e.spawn("", f)
	g.tag = parent.tag
	g.low = true
}

// ---------------------------------------------------------------------------
// The scheduling decision

type alt struct {
	g       *G
	caseIdx int // select case, -1 = default, 0 for non-select
	partner *G  // rendezvous partner (unbuffered channel) or nil
	pcase   int // partner's case index
}

// chanInfoOf returns the record of a channel. The record keeps a reference to
// the channel so that its address (the key) cannot be reused by another
// channel during the execution.
func (e *Exec) chanInfoOf(key uintptr, ch any) *chanInfo {
	ci := e.chans[key]
	if ci == nil {
		ci = &chanInfo{id: len(e.chans), ref: ch}
		e.chans[key] = ci
	}
	return ci
}

// partnersFor finds parked goroutines with a complementary operation on the channel.
func (e *Exec) partnersFor(self *G, key uintptr, wantSend bool) []alt {
	var out []alt
	for _, g := range e.gs {
		if g == self || g.done || g.pending == nil || g.pending.completed {
			continue
		}
		p := g.pending
		switch p.kind {
		case opSend, opRecv, opSelect:
			for i, c := range p.cases {
				if c.key == key && c.key != 0 && c.send == wantSend {
					out = append(out, alt{partner: g, pcase: i})
				}
			}
		}
	}
	return out
}

// caseAlts computes the enabled alternatives of one case of g's pending op.
func (e *Exec) caseAlts(g *G, i int, c selCase) []alt {
	if c.pred != nil {
		if c.pred() {
			return []alt{{g: g, caseIdx: i}}
		}
		return nil
	}
	if c.key == 0 { // nil channel: never ready
		return nil
	}
	if isExternal(c.key) {
		return []alt{{g: g, caseIdx: i}}
	}
	ci := e.chanInfoOf(c.key, c.ch)
	capN := c.ch.Cap()
	if c.send {
		if ci.closed {
			return []alt{{g: g, caseIdx: i}} // will panic, as in Go
		}
		if capN > 0 {
			if c.ch.Len() < capN {
				return []alt{{g: g, caseIdx: i}}
			}
			return nil
		}
		var out []alt
		for _, p := range e.partnersFor(g, c.key, false) {
			out = append(out, alt{g: g, caseIdx: i, partner: p.partner, pcase: p.pcase})
		}
		return out
	}
	// receive
	if c.ch.Len() > 0 || ci.closed {
		return []alt{{g: g, caseIdx: i}}
	}
	if capN == 0 {
		var out []alt
		for _, p := range e.partnersFor(g, c.key, true) {
			out = append(out, alt{g: g, caseIdx: i, partner: p.partner, pcase: p.pcase})
		}
		if len(out) > 0 {
			return out
		}
	}
	// Possibly closed by uncontrolled code (context cancellation): probe.
	if probeClosed(c.ch) {
		ci.closed = true
		return []alt{{g: g, caseIdx: i}}
	}
	return nil
}

func probeClosed(ch reflect.Value) bool {
	if ch.Type().ChanDir()&reflect.RecvDir == 0 {
		return false
	}
	x, ok := ch.TryRecv()
	// would block: x invalid. closed: x valid zero, ok false. value: ok true (uncontrolled sender; value lost -> harness bug)
	if ok {
		panic("vsched: received a value from an uncontrolled sender while probing")
	}
	return x.IsValid()
}

func (e *Exec) altsOf(g *G) []alt {
	p := g.pending
	if p == nil || g.done {
		return nil
	}
	if p.completed {
		return []alt{{g: g, caseIdx: p.chosen}}
	}
	switch p.kind {
	case opStart, opYield:
		return []alt{{g: g}}
	case opLock:
		m := p.obj.(*MutexState)
		if !m.W && m.R == 0 {
			return []alt{{g: g}}
		}
	case opRLock:
		m := p.obj.(*MutexState)
		if !m.W {
			return []alt{{g: g}}
		}
	case opWait:
		if p.obj.(*WGState).N <= 0 {
			return []alt{{g: g}}
		}
	case opOnce:
		if !p.obj.(*OnceState).Running {
			return []alt{{g: g}}
		}
	case opCustom:
		if p.pred() {
			return []alt{{g: g}}
		}
	case opSleep:
		if len(e.Points) >= p.wakeAt {
			return []alt{{g: g}}
		}
	case opSend, opRecv:
		return e.caseAlts(g, 0, p.cases[0])
	case opSelect:
		var out []alt
		for i, c := range p.cases {
			out = append(out, e.caseAlts(g, i, c)...)
		}
		if len(out) == 0 && p.hasDef {
			return []alt{{g: g, caseIdx: -1}}
		}
		return out
	}
	return nil
}

// pickLocked takes one scheduling decision. self is the goroutine taking it
// (nil if it has just finished). Returns the goroutine to wake (possibly self).
func (e *Exec) pickLocked(self *G) *G {
	var alts []alt
	curEn := 0
	if self != nil {
		alts = append(alts, e.altsOf(self)...)
		curEn = len(alts)
	}
	for _, g := range e.gs {
		if g != self && !g.low {
			alts = append(alts, e.altsOf(g)...)
		}
	}
	// Low-priority goroutines (fault / interrupt actors started with GoLow) come last: by default they
	// run only when nothing else can, so placing their step at any given point costs exactly one deviation.
	for _, g := range e.gs {
		if g != self && g.low {
			alts = append(alts, e.altsOf(g)...)
		}
	}
	if len(alts) == 0 {
		// nothing can run: time passes, the sleeper with the lowest id wakes up
		for _, g := range e.gs {
			if !g.done && g.pending != nil && g.pending.kind == opSleep {
				alts = append(alts, alt{g: g})
				break
			}
		}
	}
	if len(alts) == 0 {
		e.Deadlock = true
		e.abortLocked()
		return nil
	}
	idx := 0
	n := len(e.Points)
	if n < len(e.prefix) {
		idx = e.prefix[n]
		if idx >= len(alts) {
			e.Diverged = fmt.Sprintf("replay divergence at point %d: choice %d of %d alternatives", n, idx, len(alts))
			e.abortLocked()
			return nil
		}
	}
	if e.MaxPts > 0 && n >= e.MaxPts {
		e.Horizon = true
		e.abortLocked()
		return nil
	}
	a := alts[idx]
	selfID := -1
	if self != nil {
		selfID = self.id
	}
	free := 0
	for free < len(alts) && alts[free].g == alts[0].g {
		free++
	}
	e.Points = append(e.Points, PointRec{G: selfID, NEn: len(alts), CurEn: curEn, Free: free, Chosen: idx, ChosenG: a.g.id, Kind: kindNames[a.g.pending.kind]})
	// Perform the rendezvous / record the chosen case.
	p := a.g.pending
	if !p.completed {
		p.chosen = a.caseIdx
		if a.partner != nil {
			pp := a.partner.pending
			mine := p.cases[a.caseIdx]
			theirs := pp.cases[a.pcase]
			if mine.send {
				pp.recvVal, pp.recvOK = mine.val, true
			} else {
				p.recvVal, p.recvOK = theirs.val, true
			}
			pp.completed = true
			pp.chosen = a.pcase
			p.completed = true
		}
	}
	e.cur = a.g
	return a.g
}

func (e *Exec) abortLocked() {
	e.aborted = true
	for _, g := range e.gs {
		if !g.done {
			desc := fmt.Sprintf("g%d", g.id)
			if g.pending != nil {
				desc += ":" + kindNames[g.pending.kind]
				if g.pending.label != "" {
					desc += "(" + g.pending.label + ")"
				}
			}
			e.Blocked = append(e.Blocked, desc)
		}
	}
}

// point publishes o as the caller's pending operation, takes a scheduling
// decision, and returns when the caller has been chosen to proceed.
func (e *Exec) point(g *G, o *op) {
	if e.aborted {
		runtime.Goexit() // tearing down: unwind (deferred calls run; exit() wakes the next goroutine)
	}
	e.mu.Lock()
	g.pending = o
	next := e.pickLocked(g)
	e.mu.Unlock()
	if next == nil { // deadlock, horizon or divergence detected by this decision
		runtime.Goexit()
	}
	if next != g {
		next.wake <- struct{}{}
		<-g.wake
		if e.aborted {
			runtime.Goexit()
		}
	}
	g.pending = nil
}

// Sleep models a short real-time sleep: the caller is parked until the other
// goroutines have taken `steps` more scheduling decisions, or nothing else can run.
func Sleep(steps int) {
	e, g := me()
	if e == nil {
		return
	}
	g.sleeps++
	e.mu.Lock()
	at := len(e.Points) + steps
	e.mu.Unlock()
	e.point(g, &op{kind: opSleep, wakeAt: at})
}

// Sleeps returns how many times the calling goroutine has called Sleep (a virtual clock).
func Sleeps() int {
	_, g := me()
	if g == nil {
		return 0
	}
	return g.sleeps
}

// SetTag names the calling controlled goroutine (harness bookkeeping); Tag returns it.
// A goroutine started with Go inherits its parent's tag.
func SetTag(t string) {
	if _, g := me(); g != nil {
		g.tag = t
	}
}

func Tag() string {
	if _, g := me(); g != nil {
		return g.tag
	}
	return ""
}

// Hooks lets a harness supply environment functions that rewritten code calls
// through configured call replacements, e.g. vsched_.Hook("lstat").(func(string) (os.FileInfo, error)).
var Hooks = map[string]any{}

func Hook(name string) any {
	h, ok := Hooks[name]
	if !ok {
		panic("vsched: no hook " + name)
	}
	return h
}

// Point is an explicit, always-enabled scheduling point.
func Point(label string) {
	e, g := me()
	if e == nil {
		return
	}
	e.point(g, &op{kind: opYield, label: label})
}

// WaitUntil parks the caller until pred (side-effect free, evaluated by the
// scheduler) holds. Outside a run it returns immediately.
func WaitUntil(label string, pred func() bool) {
	e, g := me()
	if e == nil {
		return
	}
	e.point(g, &op{kind: opCustom, label: label, pred: pred})
}

// ---------------------------------------------------------------------------
// Mutex / RWMutex / WaitGroup / Once state (used by the vsync shim)

type MutexState struct {
	W bool
	R int
}

type WGState struct{ N int }

type OnceState struct {
	Done    bool
	Running bool
}

func AcquireW(m *MutexState) bool {
	e, g := me()
	if e == nil {
		return false
	}
	e.point(g, &op{kind: opLock, obj: m})
	m.W = true
	return true
}

func AcquireR(m *MutexState) bool {
	e, g := me()
	if e == nil {
		return false
	}
	e.point(g, &op{kind: opRLock, obj: m})
	m.R++
	return true
}

func WGWait(w *WGState) bool {
	e, g := me()
	if e == nil {
		return false
	}
	e.point(g, &op{kind: opWait, obj: w})
	return true
}

func OnceEnter(o *OnceState) bool {
	e, g := me()
	if e == nil {
		return false
	}
	e.point(g, &op{kind: opOnce, obj: o})
	return true
}

// ---------------------------------------------------------------------------
// Channels

func chanKey(v reflect.Value) uintptr {
	if !v.IsValid() || v.IsNil() {
		return 0
	}
	return v.Pointer()
}

// Send is `ch <- v`.
func Send[T any](ch chan<- T, v T) {
	e, g := me()
	if e == nil {
		ch <- v
		return
	}
	rv := reflect.ValueOf(ch)
	o := &op{kind: opSend, cases: []selCase{{send: true, ch: rv, key: chanKey(rv), val: reflect.ValueOf(&v).Elem()}}}
	e.point(g, o)
	if o.completed {
		return // handed to a parked receiver
	}
	if isExternal(o.cases[0].key) {
		ch <- v
		return
	}
	e.mu.Lock()
	closed := e.chanInfoOf(o.cases[0].key, o.cases[0].ch).closed
	e.mu.Unlock()
	if closed {
		panic("send on closed channel")
	}
	if cap(ch) > 0 {
		select {
		case ch <- v:
		default:
			panic("vsched: buffered send chosen but channel full")
		}
		return
	}
	panic("vsched: unbuffered send chosen without a partner")
}

func recvCommon[T any](ch <-chan T) (T, bool) {
	e, g := me()
	if e == nil {
		v, ok := <-ch
		return v, ok
	}
	rv := reflect.ValueOf(ch)
	o := &op{kind: opRecv, cases: []selCase{{ch: rv, key: chanKey(rv)}}}
	e.point(g, o)
	return finishRecv(e, o, 0, ch)
}

func finishRecv[T any](e *Exec, o *op, i int, ch <-chan T) (T, bool) {
	var zero T
	if o.recvOK { // rendezvous
		v, _ := o.recvVal.Interface().(T)
		return v, true
	}
	select {
	case v, ok := <-ch:
		return v, ok
	default:
	}
	e.mu.Lock()
	closed := e.chanInfoOf(o.cases[i].key, o.cases[i].ch).closed
	e.mu.Unlock()
	if closed {
		return zero, false
	}
	panic("vsched: receive chosen but nothing to receive")
}

// Recv is `<-ch`.
func Recv[T any](ch <-chan T) T { v, _ := recvCommon(ch); return v }

// Recv2 is `v, ok := <-ch`.
func Recv2[T any](ch <-chan T) (T, bool) { return recvCommon(ch) }

// Close is `close(ch)`.
func Close[T any](ch chan<- T) {
	e, _ := me()
	if e != nil {
		rv := reflect.ValueOf(ch)
		e.mu.Lock()
		e.chanInfoOf(chanKey(rv), rv).closed = true
		e.mu.Unlock()
	}
	close(ch)
}

// SendTo(ch)(v) is `ch <- v` with v converted to the element type by assignment.
func SendTo[T any](ch chan<- T) func(T) { return func(v T) { Send(ch, v) } }

// CaseSendTo(ch)(v) is CaseSend with v converted to the element type by assignment.
func CaseSendTo[T any](ch chan<- T) func(T) Case { return func(v T) Case { return CaseSend(ch, v) } }

// Case is one case of a select.
type Case struct{ c selCase }

func CaseRecv[T any](ch <-chan T) Case {
	rv := reflect.ValueOf(ch)
	return Case{selCase{ch: rv, key: chanKey(rv)}}
}

func CaseSend[T any](ch chan<- T, v T) Case {
	rv := reflect.ValueOf(ch)
	return Case{selCase{send: true, ch: rv, key: chanKey(rv), val: reflect.ValueOf(&v).Elem()}}
}

// CaseVirtual is a case on a virtual event (e.g. a timer) that is ready when pred holds.
func CaseVirtual(name string, pred func() bool) Case {
	return Case{selCase{name: name, pred: pred, key: 1}}
}

// Sel is the outcome of a Select.
type Sel struct {
	Index int
	o     *op
	e     *Exec
	real  []reflect.Value // outside a run
	rv    reflect.Value
	rok   bool
}

// Select is `select { ... }`; Index is the chosen case or -1 for default.
func Select(hasDefault bool, cases ...Case) *Sel {
	e, g := me()
	if e == nil {
		return realSelect(hasDefault, cases)
	}
	o := &op{kind: opSelect, hasDef: hasDefault}
	for _, c := range cases {
		o.cases = append(o.cases, c.c)
	}
	e.point(g, o)
	s := &Sel{Index: o.chosen, o: o, e: e}
	if o.chosen >= 0 {
		c := o.cases[o.chosen]
		if c.send && !o.completed && c.pred == nil && isExternal(c.key) {
			c.ch.Send(c.val)
		} else if c.send && !o.completed && c.pred == nil {
			e.mu.Lock()
			closed := e.chanInfoOf(c.key, c.ch).closed
			e.mu.Unlock()
			if closed {
				panic("send on closed channel")
			}
			if !c.ch.TrySend(c.val) {
				panic("vsched: select send chosen but channel full")
			}
		}
	}
	return s
}

func realSelect(hasDefault bool, cases []Case) *Sel {
	var sc []reflect.SelectCase
	for _, c := range cases {
		if c.c.pred != nil {
			panic("vsched: virtual select case outside a run")
		}
		if c.c.send {
			sc = append(sc, reflect.SelectCase{Dir: reflect.SelectSend, Chan: c.c.ch, Send: c.c.val})
		} else {
			sc = append(sc, reflect.SelectCase{Dir: reflect.SelectRecv, Chan: c.c.ch})
		}
	}
	if hasDefault {
		sc = append(sc, reflect.SelectCase{Dir: reflect.SelectDefault})
	}
	i, v, ok := reflect.Select(sc)
	if hasDefault && i == len(sc)-1 {
		return &Sel{Index: -1}
	}
	return &Sel{Index: i, rv: v, rok: ok}
}

// SelRecv2 returns the value received by the chosen receive case on ch.
func SelRecv2[T any](s *Sel, ch <-chan T) (T, bool) {
	if s.e == nil {
		if !s.rv.IsValid() {
			var z T
			return z, s.rok
		}
		v, _ := s.rv.Interface().(T)
		return v, s.rok
	}
	return finishRecv(s.e, s.o, s.Index, ch)
}

// SelRecv returns the value received by the chosen receive case on ch.
func SelRecv[T any](s *Sel, ch <-chan T) T { v, _ := SelRecv2(s, ch); return v }

// SelDone must be called for a chosen receive case whose value is not used
// (`case <-ch:`), so that a buffered value is actually consumed.
func SelDrop[T any](s *Sel, ch <-chan T) { SelRecv2(s, ch) }
