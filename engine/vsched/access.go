//go:build verif

package vsched

import "fmt"

// Access windows model unsynchronised accesses to a shared location as
// non-atomic: a window is opened, the goroutine yields (so others can run
// while the window is open), the access happens, the window is closed. Two
// goroutines inside windows on the same location, at least one writing, is a
// data race; it is recorded on the execution (Result.Races). If the accesses
// are ordered by a common lock the second window cannot open while the first
// is open, so no race is recorded.

type window struct {
	g     *G
	loc   string
	write bool
}

// AccessBegin opens a window on loc for the calling goroutine.
func AccessBegin(loc string, write bool) {
	e, g := me()
	if e == nil {
		return
	}
	e.mu.Lock()
	for _, w := range e.windows {
		if w.loc == loc && w.g != g && (w.write || write) {
			kind := func(wr bool) string {
				if wr {
					return "write"
				}
				return "read"
			}
			e.Races = append(e.Races, fmt.Sprintf("%s: %s by g%d concurrent with %s by g%d", loc, kind(write), g.id, kind(w.write), w.g.id))
		}
	}
	e.windows = append(e.windows, window{g, loc, write})
	e.mu.Unlock()
	e.point(g, &op{kind: opYield, label: "access:" + loc})
}

// AccessEnd closes the calling goroutine's innermost window on loc.
func AccessEnd(loc string) {
	e, g := me()
	if e == nil {
		return
	}
	e.mu.Lock()
	for i := len(e.windows) - 1; i >= 0; i-- {
		if e.windows[i].g == g && e.windows[i].loc == loc {
			e.windows = append(e.windows[:i], e.windows[i+1:]...)
			break
		}
	}
	e.mu.Unlock()
}

func MapRead1[K comparable, V any](loc string, m map[K]V, k K) V {
	AccessBegin(loc, false)
	defer AccessEnd(loc)
	return m[k]
}

func MapRead2[K comparable, V any](loc string, m map[K]V, k K) (V, bool) {
	AccessBegin(loc, false)
	defer AccessEnd(loc)
	v, ok := m[k]
	return v, ok
}

func MapWrite[K comparable, V any](loc string, m map[K]V, k K, v V) {
	AccessBegin(loc, true)
	defer AccessEnd(loc)
	m[k] = v
}

func MapDelete[K comparable, V any](loc string, m map[K]V, k K) {
	AccessBegin(loc, true)
	defer AccessEnd(loc)
	delete(m, k)
}
