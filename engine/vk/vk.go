//go:build verif

// Package vk is the shared kernel of the /verif checks: evidence accounting,
// violation reporting with known-finding matching, and bounded-exhaustive
// enumeration helpers. It is added to the elvish module by the build overlay
// (virtual package src.elv.sh/pkg/zzverif/vk) and imports only the standard
// library so that in-package harnesses of any elvish package can use it.
package vk

import (
	"crypto/sha1"
	"encoding/json"
	"fmt"
	"os"
	"path/filepath"
	"runtime"
	"sort"
	"strconv"
	"strings"
	"sync"
	"sync/atomic"
	"testing"
	"time"
)

// Ctx accumulates what one check run covered.
type Ctx struct {
	ID    string
	Level string
	Tier  string
	Seed  int64
	T     *testing.T

	start    time.Time
	deadline time.Time

	mu          sync.Mutex
	evaluations int64
	classes     map[string]int64
	samples     []any
	maxSamples  int
	violKeys    map[string]bool
	violations  int
	knownHits   map[string]bool
	known       map[string]string
	replayDir   string // $VERIF_REPLAYS as it was when the run started (a harness may clear the environment later)
	extra       map[string]any
	assumptions []string
	rule        string
	exhaustive  bool
	capped      atomic.Bool
	watched     []*Local
	watching    bool
}

// Thorough reports whether the thorough tier was requested.
func (c *Ctx) Thorough() bool { return c.Tier == "thorough" }

// Pick returns q for the quick tier and t for the thorough tier.
func Pick[T any](c *Ctx, q, t T) T {
	if c.Thorough() {
		return t
	}
	return q
}

// Run runs a check body and writes the evidence file.
func Run(t *testing.T, id, level string, body func(c *Ctx)) {
	c := &Ctx{ID: id, Level: level, T: t, start: time.Now(),
		classes: map[string]int64{}, violKeys: map[string]bool{}, knownHits: map[string]bool{},
		known: map[string]string{}, extra: map[string]any{}, maxSamples: 8, exhaustive: true, replayDir: os.Getenv("VERIF_REPLAYS")}
	c.Tier = os.Getenv("VERIF_TIER")
	if c.Tier != "thorough" {
		c.Tier = "quick"
	}
	c.Seed, _ = strconv.ParseInt(os.Getenv("VERIF_SEED"), 10, 64)
	budget := 0
	if s := os.Getenv("VERIF_BUDGET_S"); s != "" {
		budget, _ = strconv.Atoi(s)
	}
	if budget == 0 {
		budget = Pick(c, 240, 900)
	}
	c.deadline = c.start.Add(time.Duration(budget) * time.Second)
	c.loadKnown()
	func() {
		defer func() {
			if r := recover(); r != nil {
				buf := make([]byte, 16384)
				buf = buf[:runtime.Stack(buf, false)]
				fmt.Printf("HARNESS-ERROR property=%s panic in harness: %v\n%s\n", id, r, buf)
				c.writeEvidence()
				os.Exit(3)
			}
		}()
		body(c)
	}()
	c.writeEvidence()
	for k, txt := range c.known {
		if !c.knownHits[k] {
			fmt.Printf("NOTE property=%s listed known finding %q (%s) was not observed in this run\n", id, k, txt)
		}
	}
	if c.violations > 0 {
		t.Fail()
	}
}

func (c *Ctx) loadKnown() {
	path := os.Getenv("VERIF_KNOWN")
	if path == "" {
		path = "/verif/known_findings.txt"
	}
	data, err := os.ReadFile(path)
	if err != nil {
		return
	}
	for _, line := range strings.Split(string(data), "\n") {
		line = strings.TrimSpace(line)
		if !strings.HasPrefix(line, "finding:") {
			continue
		}
		f := strings.Fields(line)
		if len(f) < 3 || f[1] != "property="+c.ID || !strings.HasPrefix(f[2], "key=") {
			continue
		}
		c.known[strings.TrimPrefix(f[2], "key=")] = strings.Join(f[3:], " ")
	}
}

// TimeUp reports whether the run's internal budget is used up; a check that
// stops because of it must call Capped.
func (c *Ctx) TimeUp() bool { return time.Now().After(c.deadline) }

// Capped records that the stated space was not fully enumerated.
func (c *Ctx) Capped(why string) {
	if !c.capped.Swap(true) {
		c.mu.Lock()
		c.exhaustive = false
		c.extra["cap_hit"] = why
		c.mu.Unlock()
	}
}

// IsCapped reports whether Capped has been called.
func (c *Ctx) IsCapped() bool { return c.capped.Load() }

// Rule states how cases are enumerated and what makes one non-trivial.
func (c *Ctx) Rule(s string) { c.rule = s }

// Assume records an assumption / trusted component.
func (c *Ctx) Assume(s ...string) { c.assumptions = append(c.assumptions, s...) }

// Set records an extra coverage key.
func (c *Ctx) Set(k string, v any) { c.mu.Lock(); c.extra[k] = v; c.mu.Unlock() }

// Add adds n to an extra integer coverage key.
func (c *Ctx) Add(k string, n int64) {
	c.mu.Lock()
	old, _ := c.extra[k].(int64)
	c.extra[k] = old + n
	c.mu.Unlock()
}

// Sample records one explored case (only the first few are kept).
func (c *Ctx) Sample(v any) {
	c.mu.Lock()
	if len(c.samples) < c.maxSamples {
		c.samples = append(c.samples, v)
	}
	c.mu.Unlock()
}

// Local is a per-worker accumulator, merged with Ctx.Merge.
type Local struct {
	Evals   int64
	Classes map[string]int64
	busy    atomic.Int64 // epoch at which the current case began, 0 = idle
	cur     any
}

func NewLocal() *Local { return &Local{Classes: map[string]int64{}} }

var epoch atomic.Int64

// Begin marks the start of one case for the non-termination watchdog; cur
// describes the case (read only if the case never ends).
func (l *Local) Begin(cur any) { l.cur = cur; l.busy.Store(epoch.Load()) }

// End marks the end of the case begun with Begin.
func (l *Local) End() { l.busy.Store(0) }

// Watch registers l with the non-termination watchdog: a case that stays busy
// for more than hangSeconds (far above any legitimate case, which takes
// microseconds to milliseconds) is reported as a non-termination violation and
// the process exits, since a spinning goroutine cannot be stopped.
func (c *Ctx) Watch(l *Local) {
	c.mu.Lock()
	c.watched = append(c.watched, l)
	if !c.watching {
		c.watching = true
		epoch.Store(1)
		go func() {
			for {
				time.Sleep(time.Second)
				e := epoch.Add(1)
				c.mu.Lock()
				ws := append([]*Local{}, c.watched...)
				c.mu.Unlock()
				for _, w := range ws {
					if b := w.busy.Load(); b != 0 && e-b > hangSeconds {
						c.Violate("nontermination", fmt.Sprintf("case did not finish within %d s: %v", hangSeconds, w.cur), fmt.Sprint(w.cur))
						c.Capped("stopped at a non-terminating case")
						c.writeEvidence()
						os.Exit(1)
					}
				}
			}
		}()
	}
	c.mu.Unlock()
}

const hangSeconds = 300

// Case counts one evaluated case; class is its non-triviality class ("" means trivial).
func (l *Local) Case(class string) {
	l.Evals++
	if class != "" {
		l.Classes[class]++
	}
}

func (c *Ctx) Merge(l *Local) {
	c.mu.Lock()
	c.evaluations += l.Evals
	for k, n := range l.Classes {
		c.classes[k] += n
	}
	c.mu.Unlock()
}

// Case counts one evaluated case directly on the Ctx (thread-safe, slower).
func (c *Ctx) Case(class string) {
	c.mu.Lock()
	c.evaluations++
	if class != "" {
		c.classes[class]++
	}
	c.mu.Unlock()
}

// Violate reports a violation. key is the stable class of the counterexample
// (what known_findings.txt matches on); only the first violation per key is
// reported (enumeration is shortest-first, so it is a minimal one).
func (c *Ctx) Violate(key, msg string, replay any) {
	c.mu.Lock()
	defer c.mu.Unlock()
	if c.violKeys[key] {
		return
	}
	c.violKeys[key] = true
	if txt, ok := c.known[key]; ok {
		c.knownHits[key] = true
		fmt.Printf("KNOWN-FINDING: property=%s key=%s %s [%s]\n", c.ID, key, txt, oneLine(msg))
		return
	}
	c.violations++
	if c.violations > 25 {
		return
	}
	dir := c.replayDir
	if dir == "" {
		dir = "/verif/replays"
	}
	os.MkdirAll(dir, 0o755)
	h := sha1.Sum([]byte(key))
	path := filepath.Join(dir, fmt.Sprintf("%s-%x.json", c.ID, h[:5]))
	data, _ := json.MarshalIndent(map[string]any{"property": c.ID, "key": key, "message": msg, "case": jsonSafe(replay),
		"how_to_replay": "./check " + c.ID + " quick   (enumeration is deterministic and shortest-first; the case above is re-reached and re-reported)"}, "", " ")
	os.WriteFile(path, data, 0o644)
	fmt.Printf("VIOLATION property=%s replay=%s key=%s %s\n", c.ID, path, key, oneLine(msg))
}

// Violations returns the number of unlisted violations so far.
func (c *Ctx) Violations() int { c.mu.Lock(); defer c.mu.Unlock(); return c.violations }

func oneLine(s string) string {
	s = strings.ReplaceAll(s, "\n", "\\n")
	if len(s) > 400 {
		s = s[:400] + "..."
	}
	return s
}

func jsonSafe(v any) any {
	if _, err := json.Marshal(v); err != nil {
		return fmt.Sprintf("%#v", v)
	}
	return v
}

func (c *Ctx) writeEvidence() {
	c.mu.Lock()
	defer c.mu.Unlock()
	nontrivial := int64(len(c.classes))
	cov := map[string]any{
		"evaluations":         c.evaluations,
		"distinct_nontrivial": nontrivial,
		"rule":                c.rule,
		"samples":             jsonSafe(c.samples),
		"exhaustive":          c.exhaustive,
	}
	if len(c.samples) == 0 {
		cov["samples"] = []any{"(no sample recorded)"}
	}
	// the largest classes, for a reader
	type kv struct {
		K string
		N int64
	}
	var top []kv
	for k, n := range c.classes {
		top = append(top, kv{k, n})
	}
	sort.Slice(top, func(i, j int) bool {
		if top[i].N != top[j].N {
			return top[i].N > top[j].N
		}
		return top[i].K < top[j].K
	})
	if len(top) > 12 {
		top = top[:12]
	}
	tc := map[string]int64{}
	for _, e := range top {
		tc[e.K] = e.N
	}
	cov["largest_classes"] = tc
	for k, v := range c.extra {
		cov[k] = v
	}
	var kh []string
	for k := range c.knownHits {
		kh = append(kh, k)
	}
	sort.Strings(kh)
	cov["known_findings_observed"] = kh
	ev := map[string]any{
		"property_id": c.ID,
		"tier":        c.Tier,
		"seed":        c.Seed,
		"level":       c.Level,
		"coverage":    cov,
		"assumptions": append([]string{}, c.assumptions...),
		"wall_s":      time.Since(c.start).Seconds(),
		"violations":  c.violations,
	}
	path := os.Getenv("VERIF_EVIDENCE")
	if path == "" {
		path = "/verif/evidence/" + c.ID + ".json"
	}
	os.MkdirAll(filepath.Dir(path), 0o755)
	data, err := json.MarshalIndent(ev, "", " ")
	if err != nil {
		fmt.Printf("HARNESS-ERROR property=%s cannot encode evidence: %v\n", c.ID, err)
		os.Exit(3)
	}
	if err := os.WriteFile(path, data, 0o644); err != nil {
		fmt.Printf("HARNESS-ERROR property=%s cannot write evidence: %v\n", c.ID, err)
		os.Exit(3)
	}
	fmt.Printf("EVIDENCE property=%s tier=%s evaluations=%d distinct_nontrivial=%d exhaustive=%v violations=%d known=%d wall=%.1fs\n",
		c.ID, c.Tier, c.evaluations, nontrivial, c.exhaustive, c.violations, len(c.knownHits), time.Since(c.start).Seconds())
}

// Workers is the number of parallel workers used by the enumeration helpers.
func Workers() int {
	n := runtime.GOMAXPROCS(0)
	if n > 16 {
		n = 16
	}
	return n
}

// EnumStrings calls f for every sequence over nsym symbols with length in
// [0,maxLen], sharded over workers by the first two symbols; within a shard
// the order is length-lexicographic. f receives a worker-local accumulator.
// idx must not be retained. Returning false from f stops that worker's shard.
func (c *Ctx) EnumSeqs(nsym, maxLen int, f func(l *Local, idx []int)) {
	type shard struct{ pre []int }
	var shards []shard
	// lengths 0..2 are handled as their own shards (prefix is the whole sequence, exact length)
	pl := 2
	if maxLen < 2 {
		pl = maxLen
	}
	var exact []shard
	exact = append(exact, shard{nil})
	for l := 1; l < pl; l++ {
		eachSeq(nsym, l, func(s []int) { exact = append(exact, shard{append([]int{}, s...)}) })
	}
	eachSeq(nsym, pl, func(s []int) { shards = append(shards, shard{append([]int{}, s...)}) })
	var wg sync.WaitGroup
	var next int64 = -1
	nw := Workers()
	// exact shards first (simplest cases first), sequentially on one local
	l0 := NewLocal()
	for _, s := range exact {
		if len(s.pre) > maxLen || (len(s.pre) == pl && pl > 0) {
			continue
		}
		f(l0, s.pre)
	}
	c.Merge(l0)
	if maxLen == 0 {
		return
	}
	for w := 0; w < nw; w++ {
		wg.Add(1)
		go func() {
			defer wg.Done()
			l := NewLocal()
			c.Watch(l)
			defer c.Merge(l)
			for {
				i := int(atomic.AddInt64(&next, 1))
				if i >= len(shards) {
					return
				}
				pre := shards[i].pre
				// all sequences with this prefix, lengths pl..maxLen, in length order
				for n := len(pre); n <= maxLen; n++ {
					if c.TimeUp() {
						c.Capped(fmt.Sprintf("time budget reached while enumerating length %d", n))
						return
					}
					buf := make([]int, n)
					copy(buf, pre)
					eachTail(nsym, buf, len(pre), func() { l.Begin(buf); f(l, buf); l.End() })
				}
			}
		}()
	}
	wg.Wait()
}

func eachSeq(nsym, n int, f func([]int)) {
	buf := make([]int, n)
	eachTail(nsym, buf, 0, func() { f(buf) })
}

func eachTail(nsym int, buf []int, from int, f func()) {
	if from >= len(buf) {
		f()
		return
	}
	for i := from; i < len(buf); i++ {
		buf[i] = 0
	}
	for {
		f()
		i := len(buf) - 1
		for i >= from {
			buf[i]++
			if buf[i] < nsym {
				break
			}
			buf[i] = 0
			i--
		}
		if i < from {
			return
		}
	}
}

// Join builds the string for a symbol index sequence.
func Join(alpha []string, idx []int) string {
	var sb strings.Builder
	for _, i := range idx {
		sb.WriteString(alpha[i])
	}
	return sb.String()
}

// Parallel runs f(i) for i in [0,n) on Workers() goroutines, each with a Local.
func (c *Ctx) Parallel(n int, f func(l *Local, i int)) {
	var wg sync.WaitGroup
	var next int64 = -1
	for w := 0; w < Workers(); w++ {
		wg.Add(1)
		go func() {
			defer wg.Done()
			l := NewLocal()
			defer c.Merge(l)
			for {
				i := int(atomic.AddInt64(&next, 1))
				if i >= n {
					return
				}
				f(l, i)
			}
		}()
	}
	wg.Wait()
}

// Try runs f and returns a non-empty description if it panicked.
func Try(f func()) (panicked string) {
	defer func() {
		if r := recover(); r != nil {
			buf := make([]byte, 2048)
			buf = buf[:runtime.Stack(buf, false)]
			panicked = fmt.Sprintf("panic: %v | %s", r, firstFrames(string(buf)))
		}
	}()
	f()
	return ""
}

func firstFrames(st string) string {
	lines := strings.Split(st, "\n")
	var out []string
	for _, l := range lines {
		l = strings.TrimSpace(l)
		if strings.HasPrefix(l, "/") && !strings.Contains(l, "/runtime/") && !strings.Contains(l, "zzverif/vk") {
			out = append(out, filepath.Base(strings.Fields(l)[0]))
			if len(out) == 3 {
				break
			}
		}
	}
	return strings.Join(out, " < ")
}

// PanicSite extracts a stable "file:line"-free site (file name only) from a Try description.
func PanicSite(p string) string {
	if i := strings.LastIndex(p, "| "); i >= 0 {
		s := p[i+2:]
		if j := strings.Index(s, " <"); j >= 0 {
			s = s[:j]
		}
		if k := strings.Index(s, ":"); k >= 0 {
			s = s[:k]
		}
		return s
	}
	return "unknown"
}
